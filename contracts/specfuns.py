"""Spec vocabulary: ONE text, two readers.

Every function below is ordinary Python (so CPython can evaluate contracts at run
time for replay and for the bounded layer) *and* is read as an AST by pyvc, which
inlines it symbolically.  For that reason every non-primitive function is a
single `return <expression>`.

Primitives (decorated with @primitive) have a CPython body here and a solver
meaning in pyvc (pyvc/ghost.py: uninterpreted counters with instantiated,
separately proved lemmas; pyvc/engine.py: type tests).  The tables are the
spec's own (copied from music theory, not from the code under test).
"""


def primitive(f):
    f.__primitive__ = True
    return f


# ------------------------------------------------------------------ primitives

@primitive
def cnt_sharp(s, lo, hi):
    """number of '#' among s[lo:hi] (0 if hi <= lo)"""
    return s[max(lo, 0):max(hi, 0)].count("#") if hi > lo else 0


@primitive
def cnt_flat(s, lo, hi):
    return s[max(lo, 0):max(hi, 0)].count("b") if hi > lo else 0


@primitive
def cnt_other(s, lo, hi):
    seg = s[max(lo, 0):max(hi, 0)] if hi > lo else ""
    return len(seg) - seg.count("#") - seg.count("b")


@primitive
def implies(a, b):
    return (not a) or bool(b)


@primitive
def is_str(v):
    return isinstance(v, str)


@primitive
def is_False(v):
    return v is False


@primitive
def is_None(v):
    return v is None


@primitive
def is_int(v):
    return isinstance(v, int) and not isinstance(v, bool)


@primitive
def is_list(v):
    return isinstance(v, list)


@primitive
def same_object(a, b):
    return a is b


# ------------------------------------------------------------------ note names

LETTERS = "CDEFGAB"


def is_letter(c):
    return c in "ABCDEFG"


def base(c):
    """natural pitch class of a letter"""
    return (0 if c == "C" else 2 if c == "D" else 4 if c == "E" else 5 if c == "F"
            else 7 if c == "G" else 9 if c == "A" else 11 if c == "B" else -1000)


def lidx(c):
    """letter index C=0 .. B=6"""
    return (0 if c == "C" else 1 if c == "D" else 2 if c == "E" else 3 if c == "F"
            else 4 if c == "G" else 5 if c == "A" else 6 if c == "B" else -1000)


def letter_at(i):
    """inverse of lidx on 0..6"""
    return ("C" if i == 0 else "D" if i == 1 else "E" if i == 2 else "F" if i == 3
            else "G" if i == 4 else "A" if i == 5 else "B")


def lup(c, k):
    """the letter k letters above c (k may be negative)"""
    return letter_at((lidx(c) + k) % 7)


def sharps(s):
    return cnt_sharp(s, 1, len(s))


def flats(s):
    return cnt_flat(s, 1, len(s))


def others(s):
    return cnt_other(s, 1, len(s))


def is_name(s):
    """a letter A-G followed by any string of '#' and 'b'"""
    return len(s) >= 1 and is_letter(s[0]) and cnt_other(s, 1, len(s)) == 0


def net_upto(s, i):
    """sharps minus flats among s[1:i]"""
    return cnt_sharp(s, 1, i) - cnt_flat(s, 1, i)


def net(s):
    return cnt_sharp(s, 1, len(s)) - cnt_flat(s, 1, len(s))


def pc(s):
    """pitch class of a note name"""
    return (base(s[0]) + net(s)) % 12


def canon(s):
    """a name that does not mix sharps with flats"""
    return is_name(s) and (cnt_sharp(s, 1, len(s)) == 0 or cnt_flat(s, 1, len(s)) == 0)


def shape(s, letter, j):
    """s is `letter` followed by j sharps (j >= 0) or -j flats (j < 0), nothing else"""
    return (len(s) == 1 + abs(j) and s[0] == letter and cnt_other(s, 1, len(s)) == 0
            and (cnt_flat(s, 1, len(s)) == 0 if j >= 0 else cnt_sharp(s, 1, len(s)) == 0))


def fold6(a):
    """the accidental normaliser's effect: bring a into -6..6 by an octave"""
    return a - 12 if a > 6 else a + 12 if a < -6 else a


def natdist(c1, c2):
    """semitones from natural c1 up to natural c2, in 0..11"""
    return (base(c2) - base(c1)) % 12


def is_natural_pc(i):
    """pitch classes of the seven naturals"""
    return i == 0 or i == 2 or i == 4 or i == 5 or i == 7 or i == 9 or i == 11


# ------------------------------------------------------------------ keys (computed from the circle of fifths)

def _spell(letter, pcv):
    """letter + the accidentals that put it on pitch class pcv (nearest spelling)"""
    acc = ((pcv - base(letter) + 6) % 12) - 6
    return letter + ("#" * acc if acc > 0 else "b" * (-acc))


@primitive
def key_of_signature(n, minor):
    """the major (or relative minor) key with n sharps (n > 0) / -n flats (n < 0), -7 <= n <= 7"""
    steps = n + (3 if minor else 0)          # the relative minor lies three fifths up
    letter = LETTERS[(4 * steps) % 7]       # a fifth is four letters up
    acc = (steps + 1) // 7                   # ... F C G D A E B | F# C# ... : seven fifths add one sharp
    name = letter + ("#" * acc if acc > 0 else "b" * (-acc))
    return name.lower() if minor else name


@primitive
def all_keys():
    return tuple(key_of_signature(n, m) for n in range(-7, 8) for m in (False, True))


KEYS30 = all_keys()
MAJOR15 = tuple(key_of_signature(n, False) for n in range(-7, 8))
MINOR15 = tuple(key_of_signature(n, True) for n in range(-7, 8))


def is_key(k):
    return k in KEYS30


def is_major_key(k):
    return k in MAJOR15


def is_minor_key(k):
    return k in MINOR15


@primitive
def key_sig(key):
    """signature number of a key: sharps positive, flats negative"""
    for n in range(-7, 8):
        if key_of_signature(n, False) == key or key_of_signature(n, True) == key:
            return n
    raise ValueError(key)


@primitive
def key_notes(key):
    """the seven notes of a major / natural minor key, from its step pattern"""
    minor = key[0].islower()
    pattern = (2, 1, 2, 2, 1, 2, 2) if minor else (2, 2, 1, 2, 2, 2, 1)
    tonic = key[0].upper() + key[1:]
    p = (base(tonic[0]) + tonic[1:].count("#") - tonic[1:].count("b")) % 12
    # spelling of each degree follows the key signature: within a key every letter is used once, and
    # the accidental is whatever puts that letter on the pattern's pitch class (|acc| <= 1 for these 30 keys,
    # except that nearest-spelling is unique because |acc| <= 1 < 6)
    out = []
    for i in range(7):
        out.append(_spell(lup(tonic[0], i), p))
        p = (p + pattern[i]) % 12
    return out


@primitive
def key_accidentals(key):
    """accidentals of the key signature in circle-of-fifths order"""
    n = key_sig(key)
    sharps_order = "FCGDAEB"
    if n > 0:
        return [c + "#" for c in sharps_order[:n]]
    if n < 0:
        return [c + "b" for c in sharps_order[::-1][:-n]]
    return []


def semis(a, b):
    """semitones from name a up to name b, 0..11"""
    return (pc(b) - pc(a)) % 12


# ------------------------------------------------------------------ key-level predicates (concrete evaluation)

@primitive
def step_pattern(names):
    """semitone steps between consecutive names, closing the octave"""
    p = [(base(n[0]) + n[1:].count("#") - n[1:].count("b")) % 12 for n in names]
    return [(p[(i + 1) % len(p)] - p[i]) % 12 for i in range(len(p))]


@primitive
def letters_of(names):
    return "".join(n[0] for n in names)


@primitive
def consecutive_letters(names):
    """every name's letter is the next letter after the previous one's"""
    return all(names[i + 1][0] == lup(names[i][0], 1) for i in range(len(names) - 1))


@primitive
def altered(names):
    """the names that carry an accidental, as a sorted list"""
    return sorted(n for n in names if len(n) > 1)


@primitive
def sorted_list(xs):
    return sorted(xs)


@primitive
def key_display_name(key):
    sym = "" if len(key) == 1 else ("sharp " if key[1] == "#" else "flat ")
    return "%s %s%s" % (key[0].upper(), sym, "minor" if key[0].islower() else "major")


@primitive
def tonic_of(key):
    return key[0].upper() + key[1:]


@primitive
def list_reverse_of(a, b):
    return list(a) == list(reversed(b))


@primitive
def list_same(a, b):
    return list(a) == list(b)


# ------------------------------------------------------------------ interval shorthand / interval names

def digit(c):
    """value of a digit character '1'..'7' (0 for anything else)"""
    return (1 if c == "1" else 2 if c == "2" else 3 if c == "3" else 4 if c == "4"
            else 5 if c == "5" else 6 if c == "6" else 7 if c == "7" else 0)


def digit_char(d):
    return ("1" if d == 1 else "2" if d == 2 else "3" if d == 3 else "4" if d == 4
            else "5" if d == 5 else "6" if d == 6 else "7")


def maj_semis(d):
    """semitones of the major / perfect interval with number d (1 = unison .. 7 = seventh)"""
    return (0 if d == 1 else 2 if d == 2 else 4 if d == 3 else 5 if d == 4
            else 7 if d == 5 else 9 if d == 6 else 11)


def sh_acc(sh):
    """sharps minus flats in front of the degree digit of an interval shorthand"""
    return cnt_sharp(sh, 0, len(sh) - 1) - cnt_flat(sh, 0, len(sh) - 1)


def is_interval_shorthand(sh):
    """any string of '#'/'b' followed by one digit 1..7"""
    return len(sh) >= 1 and cnt_other(sh, 0, len(sh) - 1) == 0 and digit(sh[len(sh) - 1]) >= 1


def ctor_net(letter_to, semis_up, name_from):
    """accidental count the interval constructors give the target letter (their exact-spelling clause)"""
    return fold6(semis_up - (base(letter_to) - pc(name_from)) % 12)


def number_name(n):
    """n = letters spanned, 0..6"""
    return ("unison" if n == 0 else "second" if n == 1 else "third" if n == 2 else "fourth" if n == 3
            else "fifth" if n == 4 else "sixth" if n == 5 else "seventh")


def quality_name(offset, n):
    """quality from the semitone offset against the major/perfect size"""
    return (("perfect" if (n == 3 or n == 4) else "major") if offset == 0 else "minor" if offset == -1
            else "diminished" if offset < -1 else "augmented")


def letters_spanned(a, b):
    return (lidx(b[0]) - lidx(a[0])) % 7


def asc_distance(a, b):
    """ascending distance from a to b counted along the letters they span"""
    return natdist(a[0], b[0]) + net(b) - net(a)


def sh_is(s, acc, d):
    """s is acc sharps (acc >= 0) or -acc flats followed by the digit of d"""
    return (len(s) == abs(acc) + 1 and s[len(s) - 1] == digit_char(d)
            and (cnt_sharp(s, 0, len(s) - 1) == acc if acc >= 0 else cnt_flat(s, 0, len(s) - 1) == -acc))


# ------------------------------------------------------------------ chord formulas (spec's own table)
# each note after the root as (letters above the root, semitones above the root)
_MAJ, _MIN, _DIM, _AUG = [(2, 4), (4, 7)], [(2, 3), (4, 7)], [(2, 3), (4, 6)], [(2, 4), (4, 8)]
_SUS4, _SUS2 = [(3, 5), (4, 7)], [(1, 2), (4, 7)]
_m7, _M7, _b7 = (6, 10), (6, 11), (6, 10)
_9, _b9, _s9, _11, _s11, _13, _6 = (1, 2), (1, 1), (1, 3), (3, 5), (3, 6), (5, 9), (5, 9)
SHORTHAND_STEPS = {
    "m": _MIN, "M": _MAJ, "": _MAJ, "dim": _DIM, "aug": _AUG, "+": _AUG,
    "7#5": _AUG + [_b7], "M7+5": _AUG + [_b7], "m7+": _AUG + [_b7], "M7+": _AUG + [_M7], "7+": _AUG + [_M7],
    "sus47": _SUS4 + [_b7], "7sus4": _SUS4 + [_b7], "sus4": _SUS4, "sus": _SUS4, "sus2": _SUS2,
    "11": [(4, 7), _b7, _11], "add11": [(4, 7), _b7, _11],
    "sus4b9": _SUS4 + [_b9], "susb9": _SUS4 + [_b9],
    "m7": _MIN + [_m7], "M7": _MAJ + [_M7], "dom7": _MAJ + [_b7], "7": _MAJ + [_b7],
    "m7b5": _DIM + [_m7], "dim7": _DIM + [(6, 9)], "m/M7": _MIN + [_M7], "mM7": _MIN + [_M7],
    "m6": _MIN + [_6], "M6": _MAJ + [_6], "6": _MAJ + [_6],
    "6/7": _MAJ + [_6, _b7], "67": _MAJ + [_6, _b7], "6/9": _MAJ + [_6, _9], "69": _MAJ + [_6, _9],
    "9": _MAJ + [_b7, _9], "add9": _MAJ + [_b7, _9], "7b9": _MAJ + [_b7, _b9], "7#9": _MAJ + [_b7, _s9],
    "M9": _MAJ + [_M7, _9], "m9": _MIN + [_m7, _9],
    "7#11": _MAJ + [_b7, _s11], "m11": _MIN + [_m7, _11], "M11": _MAJ + [_M7, _9, _11],
    "M13": _MAJ + [_M7, _9, _13], "m13": _MIN + [_m7, _9, _13], "13": _MAJ + [_b7, _9, _13],
    "add13": _MAJ + [_b7, _9, _13],
    "7b5": [(2, 4), (4, 6), _b7], "hendrix": _MAJ + [_b7, (2, 3)], "7b12": _MAJ + [_b7, (2, 3)],
    "5": [(4, 7)],
}


@primitive
def chord_steps(sh):
    return [tuple(x) for x in SHORTHAND_STEPS[sh]]


@primitive
def known_chord_shorthands():
    return sorted(SHORTHAND_STEPS)


def chord_matches(chord, root, steps):
    """chord is root followed by one note per step, each on the step's letter at the step's semitone distance"""
    return (len(chord) == 1 + len(steps) and chord[0] == root and
            all([is_name(chord[i + 1]) and chord[i + 1][0] == lup(root[0], st[0])
                 and pc(chord[i + 1]) == (pc(root) + st[1]) % 12 for i, st in enumerate(steps)]))


@primitive
def chord_of(root, sh):
    """the chord the formula of shorthand sh prescribes on root, spelled canonically (nearest accidentals)"""
    p0 = (base(root[0]) + root[1:].count("#") - root[1:].count("b")) % 12
    n0 = root[1:].count("#") - root[1:].count("b")
    out = [root]
    for (d, s) in SHORTHAND_STEPS[sh]:
        letter = lup(root[0], d)
        # accidentals: exactly what makes the distance from the root s semitones
        acc = s - ((base(letter) - base(root[0])) % 12) + n0
        acc = fold6(acc) if abs(acc) > 6 else acc
        out.append(letter + ("#" * acc if acc > 0 else "b" * (-acc)))
    return out


@primitive
def chord_spec(s):
    """independent reading of the chord-shorthand grammar: -> (kind, chord)
    kind in 'ok' | 'NoteFormatError' | 'FormatError' | 'unspecified' (outside what the property covers)"""
    if isinstance(s, list):
        outs = [chord_spec(x) for x in s]
        for k, v in outs:
            if k != "ok":
                return (k, None)
        return ("ok", [v for k, v in outs])
    if not isinstance(s, str) or s == "":
        return ("unspecified", None)
    if s in ("NC", "N.C."):
        return ("ok", [])
    s = s.replace("min", "m").replace("mi", "m").replace("-", "m").replace("maj", "M").replace("ma", "M")
    if s[0] not in "ABCDEFG":
        return ("NoteFormatError", None)
    i = 1
    while i < len(s) and s[i] in "#b":
        i += 1
    root, rest = s[:i], s[i:]
    has_slash = "/" in rest and rest not in ("m/M7", "6/9", "6/7")
    if "|" in rest:
        j = rest.index("|")
        if "/" in rest.replace("m/M7", "").replace("6/9", "").replace("6/7", ""):
            return ("unspecified", None)
        right = chord_spec(rest[j + 1:])
        if right[0] != "ok":
            return right
        left = chord_spec(root + rest[:j])
        if left[0] != "ok":
            return left
        if not right[1] or not isinstance(right[1], list):
            return ("unspecified", None)
        r = list(right[1])
        for n in left[1]:
            if n != r[-1]:
                r.append(n)
        return ("ok", r)
    if has_slash:
        j = rest.rindex("/")
        body, bass = rest[:j], rest[j + 1:]
        if "/" in body and body not in ("m/M7", "6/9", "6/7"):
            return ("unspecified", None)
        if bass == "":
            return ("unspecified", None)
        if body not in SHORTHAND_STEPS:
            return ("FormatError", None)
        if not (bass[0] in "ABCDEFG" and all(c in "#b" for c in bass[1:])):
            return ("NoteFormatError", None)
        return ("ok", [bass] + chord_of(root, body))
    if rest not in SHORTHAND_STEPS:
        return ("FormatError", None)
    return ("ok", chord_of(root, rest))


# ------------------------------------------------------------------ scales

@primitive
def is_periodic(l, p, n):
    """l is its first p elements repeated n times followed by its first element (n >= 1)"""
    return n >= 1 and list(l) == list(l[:p]) * n + [l[0]]


def step(a, b):
    """semitones from name a up to name b"""
    return (pc(b) - pc(a)) % 12


SCALE_PATTERN = {
    "Ionian": [2, 2, 1, 2, 2, 2, 1], "Dorian": [2, 1, 2, 2, 2, 1, 2], "Phrygian": [1, 2, 2, 2, 1, 2, 2],
    "Lydian": [2, 2, 2, 1, 2, 2, 1], "Mixolydian": [2, 2, 1, 2, 2, 1, 2], "Aeolian": [2, 1, 2, 2, 1, 2, 2],
    "Locrian": [1, 2, 2, 1, 2, 2, 2],
    "Major": [2, 2, 1, 2, 2, 2, 1], "HarmonicMajor": [2, 2, 1, 2, 1, 3, 1],
    "NaturalMinor": [2, 1, 2, 2, 1, 2, 2], "HarmonicMinor": [2, 1, 2, 2, 1, 3, 1],
    "MelodicMinor": [2, 1, 2, 2, 2, 2, 1], "Bachian": [2, 1, 2, 2, 2, 2, 1],
    "MinorNeapolitan": [1, 2, 2, 2, 1, 3, 1],
    "WholeTone": [2, 2, 2, 2, 2, 2], "Octatonic": [2, 1, 2, 1, 2, 1, 2, 1],
    "Chromatic": [1] * 12,
}


def _alter(name, d):
    """name moved by d semitones on the same letter (cancelling opposite accidentals, as musicians spell it)"""
    n = name[1:].count("#") - name[1:].count("b") + d
    return name[0] + ("#" * n if n > 0 else "b" * (-n))


@primitive
def scale_sets(tonic_major, tonic_minor):
    """{scale name: (ascending note set, descending note set)} for one key pair, from the step patterns"""
    out = {}
    maj = key_notes(tonic_major)
    out[tonic_major + " major"] = (set(maj), set(maj))
    hm = list(maj)
    hm[5] = _alter(hm[5], -1)
    out[tonic_major + " harmonic major"] = (set(hm), set(hm))
    t = tonic_minor[0].upper() + tonic_minor[1:]
    nat = key_notes(tonic_minor)
    out[t + " natural minor"] = (set(nat), set(nat))
    har = list(nat)
    har[6] = _alter(har[6], 1)
    out[t + " harmonic minor"] = (set(har), set(har))
    mel = list(har)
    mel[5] = _alter(mel[5], 1)
    out[t + " melodic minor"] = (set(mel), set(nat))
    out[t + " Bachian"] = (set(mel), set(mel))
    nea = list(har)
    nea[1] = _alter(nea[1], -1)
    nead = list(nat)
    nead[1] = _alter(nead[1], -1)
    out[t + " minor Neapolitan"] = (set(nea), set(nead))
    return out


@primitive
def scale_determine_spec(notes):
    """sorted names of the major/minor-family scales (15 key pairs) whose ascending or descending set holds all notes"""
    want = set(notes)
    res = []
    for n in range(-7, 8):
        for name, (asc, desc) in scale_sets(key_of_signature(n, False), key_of_signature(n, True)).items():
            if want <= asc or want <= desc:
                res.append(name)
    return sorted(res)


# ------------------------------------------------------------------ meters and values

@primitive
def is_pow2(v):
    """v is one of 1, 2, 4, 8, ... (a float must be integer-valued)"""
    if isinstance(v, bool):
        return v is True
    if isinstance(v, int):
        return v >= 1 and (v & (v - 1)) == 0
    if isinstance(v, float):
        return v == v and v not in (float("inf"), float("-inf")) and v >= 1 and v == int(v) and \
            (int(v) & (int(v) - 1)) == 0
    return False


@primitive
def is_integral(v):
    if isinstance(v, int):
        return True
    return isinstance(v, float) and v == v and v not in (float("inf"), float("-inf")) and v == int(v)


@primitive
def feq(a, b):
    """equality of float-valued expressions: exact over the reals for the solver (float-as-real);
    at run time within 4 ulp-ish relative tolerance, because IEEE rounding is not what the proof is about"""
    import math
    return a == b or math.isclose(a, b, rel_tol=1e-12, abs_tol=0.0)


# ------------------------------------------------------------------ Note objects

def pitch(n):
    """12 x octave + natural pitch of the letter + sharps - flats"""
    return 12 * n.octave + base(n.name[0]) + net(n.name)


def name_pitch(name, octave):
    return 12 * octave + base(name[0]) + net(name)


# ------------------------------------------------------------------ MIDI byte-level vocabulary

def is_vlq(b, n):
    """b is the Standard MIDI File variable-length quantity of n (0 <= n < 2**28): big-endian groups of 7 bits,
    every byte but the last with bit 7 set"""
    return ((len(b) == 1 and b[0] == n) if n < 128 else
            (len(b) == 2 and b[0] == 128 + n // 128 and b[1] == n % 128) if n < 16384 else
            (len(b) == 3 and b[0] == 128 + n // 16384 and b[1] == 128 + (n // 128) % 128 and b[2] == n % 128)
            if n < 2097152 else
            (len(b) == 4 and b[0] == 128 + n // 2097152 and b[1] == 128 + (n // 16384) % 128
             and b[2] == 128 + (n // 128) % 128 and b[3] == n % 128))


def starts_with(b, prefix):
    """b begins with the bytes `prefix`"""
    return len(b) >= len(prefix) and b[:len(prefix)] == prefix


@primitive
def is_ascii(s):
    """every character of the text is below 128"""
    return all(ord(c) < 128 for c in s)


@primitive
def ascii_bytes(s):
    """the bytes an ASCII text encodes to"""
    return s.encode("ascii")


def twos8(n):
    """two's complement byte of a small signed int"""
    return n if n >= 0 else 256 + n


def pow2_of(k):
    """2 ** k for the exponents a MIDI time signature can carry"""
    return (1 if k == 0 else 2 if k == 1 else 4 if k == 2 else 8 if k == 3 else 16 if k == 4
            else 32 if k == 5 else 64 if k == 6 else 128 if k == 7 else -1)


# ------------------------------------------------------------------ ghost event trace (sequencer hooks)
_TRACE = []
_TRACE_DEPTH = [0]      # > 0 while a callee that the contract views as ONE event is running (its own hooks are not recorded)


def _trace_add(rec):
    if _TRACE_DEPTH[0] == 0:
        _TRACE.append(rec)


@primitive
def trace_events():
    """the records appended by the abstract hooks since the call under contract started"""
    return list(_TRACE)


@primitive
def open_string(t):
    """a string of a tuning: the Note itself, or the first Note of a course"""
    return t[0] if isinstance(t, list) else t


# ------------------------------------------------------------------ LilyPond note text

def lower_letter(c):
    """lower-case form of a note letter"""
    return ("c" if c == "C" else "d" if c == "D" else "e" if c == "E" else "f" if c == "F"
            else "g" if c == "G" else "a" if c == "A" else "b" if c == "B" else c)


def ly_marks(octave, process_octaves):
    """number of octave marks: one ' per octave above 3, one , per octave below 3"""
    return (0 if not process_octaves else octave - 3 if octave > 3 else 3 - octave)


@primitive
def is_fresh(v):
    """(solver side: allocated by the call under contract, not aliased to module state or arguments).
    At run time aliasing is checked by the drivers (mutate the result, call again); here it holds vacuously."""
    return True


# ------------------------------------------------------------------ diatonic harmony

@primitive
def diatonic_triads(key):
    n = key_notes(key)
    return [[n[i], n[(i + 2) % 7], n[(i + 4) % 7]] for i in range(7)]


@primitive
def diatonic_sevenths(key):
    n = key_notes(key)
    return [[n[i], n[(i + 2) % 7], n[(i + 4) % 7], n[(i + 6) % 7]] for i in range(7)]


NUMERALS = ("I", "II", "III", "IV", "V", "VI", "VII")
NUMERAL_SEMIS = (0, 2, 4, 5, 7, 9, 11)


def numeral_index(r):
    return (0 if r == "I" else 1 if r == "II" else 2 if r == "III" else 3 if r == "IV" else 4 if r == "V"
            else 5 if r == "VI" else 6 if r == "VII" else -1)


def numeral_semis(i):
    return (0 if i == 0 else 2 if i == 1 else 4 if i == 2 else 5 if i == 3 else 7 if i == 4 else 9 if i == 5 else 11)


@primitive
def all_valid_names(t):
    """every Note of a string / course has a valid name"""
    return all(is_name(n.name) for n in (t if isinstance(t, list) else [t]))


@primitive
def list_prefix_same(a, b, n):
    """the first n elements of a are (identical to or equal to) the first n elements of b"""
    return len(a) >= n and len(b) >= n and all(x is y or x == y for x, y in zip(list(a)[:n], list(b)[:n]))


@primitive
def module_value(path):
    """the module-level object at a dotted path (memo tables: their representation invariant is stated over it)"""
    import importlib
    modname, _, attr = path.rpartition(".")
    return getattr(importlib.import_module(modname), attr)


def key_cache_ok(cache):
    """representation invariant of keys._key_cache: only the 30 keys, each mapped to its note list"""
    return all([is_key(k) and list(cache[k]) == key_notes(k) for k in cache])


def chord_cache_ok(cache, sevenths):
    """representation invariant of chords._triads_cache / _sevenths_cache: only the 30 keys, each mapped to the seven
    diatonic chords of that key"""
    return all([is_key(k) and [list(c) for c in cache[k]] == (diatonic_sevenths(k) if sevenths else diatonic_triads(k))
                for k in cache])


# ------------------------------------------------------------------ MIDI track walkers: the event view

def ticks288(v):
    """length of a value-v note in ticks at 72 ticks per quarter (288 per whole note), rounded half to even"""
    return int(round((1.0 / v) * 288))


def is_rest_entry(e):
    return e[2] is None or len(e[2].notes) == 0


def nc_midi_valid(nc):
    """every note of the container is a valid name whose channel, velocity and pitch number + 12 fit MIDI"""
    return all([is_name(n.name) and 0 <= n.channel and n.channel <= 15 and 0 <= n.velocity and n.velocity <= 127
                and 0 <= pitch(n) + 12 and pitch(n) + 12 <= 127 for n in nc.notes])


def entry_events(track, d, e):
    """what MidiTrack.play_Bar does for one bar entry when d ticks of rest are pending: a rest only lengthens the
    pending delay; notes get the pending delay as delta time, an optional tempo change, the note-ons, the entry's
    length as the next delta time, and the note-offs"""
    return [] if is_rest_entry(e) else (
        [('set_deltatime', d)] +
        ([('set_deltatime', 0), ('set_tempo', e[2].bpm)] if hasattr(e[2], 'bpm') else []) +
        [('play_NoteContainer', e[2]), ('set_deltatime', track.int_to_varbyte(ticks288(e[1]))),
         ('stop_NoteContainer', e[2])])


def delay_after(d, e):
    return d + ticks288(e[1]) if is_rest_entry(e) else 0


def entries_events(track, d, entries):
    return [] if len(entries) == 0 else (entry_events(track, d, entries[0]) +
                                         entries_events(track, delay_after(d, entries[0]), entries[1:]))


def final_delay(d, entries):
    return d if len(entries) == 0 else final_delay(delay_after(d, entries[0]), entries[1:])


# ------------------------------------------------------------------ MIDI reader: variable-length quantity at a file offset

def vlq_len_at(data, p):
    """number of bytes (1..4) of the variable-length quantity that starts at data[p]"""
    return 1 if data[p] < 128 else (2 if data[p + 1] < 128 else (3 if data[p + 2] < 128 else 4))


def vlq_val_at(data, p):
    """value of the variable-length quantity (1..4 bytes) that starts at data[p]"""
    return (data[p] if data[p] < 128 else
            ((data[p] % 128) * 128 + data[p + 1] if data[p + 1] < 128 else
             ((data[p] % 128) * 16384 + (data[p + 1] % 128) * 128 + data[p + 2] if data[p + 2] < 128 else
              (data[p] % 128) * 2097152 + (data[p + 1] % 128) * 16384 + (data[p + 2] % 128) * 128 + data[p + 3] % 128)))


# ------------------------------------------------------------------ sequencer: one bar played entry by entry

def seq_bpm_after(bpm, e):
    """tempo after an entry: a container carrying a bpm attribute changes it"""
    return e[2].bpm if hasattr(e[2], 'bpm') else bpm


def seq_entry_events(e, channel, bpm):
    """Sequencer.play_Bar for one entry at tempo bpm: the content is played (velocity 100), the sequencer sleeps for the
    entry's length at the tempo in force AFTER the entry's own tempo change (quarter = 60/bpm s, value v lasts 4/v
    quarters), reports the sleep, then stops the content"""
    return [('play_NoteContainer', e[2], channel, 100),
            ('sleep', (60.0 / seq_bpm_after(bpm, e)) * (4.0 / e[1])),
            ('notify', 4, {'s': (60.0 / seq_bpm_after(bpm, e)) * (4.0 / e[1])}),
            ('stop_NoteContainer', e[2], channel)]


def seq_bar_events(entries, channel, bpm):
    return [] if len(entries) == 0 else (seq_entry_events(entries[0], channel, bpm) +
                                         seq_bar_events(entries[1:], channel, seq_bpm_after(bpm, entries[0])))


def seq_final_bpm(entries, bpm):
    return bpm if len(entries) == 0 else seq_final_bpm(entries[1:], seq_bpm_after(bpm, entries[0]))


def seq_track_events(bars, channel, bpm):
    """Sequencer.play_Track: every bar in order, each at the tempo the bar before it ended with"""
    return [] if len(bars) == 0 else ([('play_Bar', bars[0], channel, bpm)] +
                                      seq_track_events(bars[1:], channel, seq_final_bpm(bars[0].bar, bpm)))


def seq_track_final_bpm(bars, bpm):
    return bpm if len(bars) == 0 else seq_track_final_bpm(bars[1:], seq_final_bpm(bars[0].bar, bpm))


def uniq_in_order(xs):
    """the distinct values of xs in order of first occurrence"""
    return [] if len(xs) == 0 else [xs[0]] + uniq_in_order([x for x in xs[1:] if x != xs[0]])


@primitive
def all_distinct_objects(xs):
    """no object occurs twice in the list"""
    return len(set(id(x) for x in xs)) == len(list(xs))


@primitive
def list_same_objects(a, b):
    """the two lists hold the same objects in the same order"""
    return len(a) == len(b) and all(x is y for x, y in zip(a, b))


def container_entries(entries):
    """the contents of the entries that hold notes (rests skipped), in bar order"""
    return [e[2] for e in entries if e[2] is not None]


# ------------------------------------------------------------------ fingerings

def min_pressed(f):
    """lowest non-open fret of a fingering (frets per string; 0 = open)"""
    return f[0] if len(f) == 1 else (min_pressed(f[1:]) if f[0] == 0 else
                                     (f[0] if all([x == 0 for x in f[1:]]) else
                                      (f[0] if f[0] <= min_pressed(f[1:]) else min_pressed(f[1:]))))


def barre_run(rev, m):
    """strings (from the last one backwards) fretted at m before the first open string is met"""
    return 0 if len(rev) == 0 or rev[0] == 0 else (1 if rev[0] == m else 0) + barre_run(rev[1:], m)


def fingers_spec(f):
    """one finger per pressed string, except that the strings at the lowest fret that can be barred by the index finger
    (those met, going from the last string backwards, before any open string) share one finger"""
    return sum([1 if x != 0 else 0 for x in f]) - (barre_run(f[::-1], min_pressed(f)) - 1
                                                   if barre_run(f[::-1], min_pressed(f)) > 1 else 0)


def uniq_by_pitch(ns):
    """the notes of ns without the ones whose pitch occurred earlier, in order"""
    return [] if len(ns) == 0 else [ns[0]] + uniq_by_pitch([n for n in ns[1:] if pitch(n) != pitch(ns[0])])
