"""Spec vocabulary: ONE text, two readers.

Every function below is ordinary Python (so CPython can evaluate contracts at run
time for replay and for the bounded layer) *and* is read as an AST by pyvc, which
inlines it symbolically.  For that reason every non-primitive function is a
single `return <expression>`.

Primitives (decorated with @primitive) have a CPython body here and a solver
meaning in pyvc (pyvc/ghost.py: uninterpreted counters with instantiated,
separately proved lemmas; pyvc/engine.py: type tests).  The tables are the
spec's own (copied from music theory, not from the code under test).
"""


def primitive(f):
    f.__primitive__ = True
    return f


# ------------------------------------------------------------------ primitives

@primitive
def cnt_sharp(s, lo, hi):
    """number of '#' among s[lo:hi] (0 if hi <= lo)"""
    return s[max(lo, 0):max(hi, 0)].count("#") if hi > lo else 0


@primitive
def cnt_flat(s, lo, hi):
    return s[max(lo, 0):max(hi, 0)].count("b") if hi > lo else 0


@primitive
def cnt_other(s, lo, hi):
    seg = s[max(lo, 0):max(hi, 0)] if hi > lo else ""
    return len(seg) - seg.count("#") - seg.count("b")


@primitive
def implies(a, b):
    return (not a) or bool(b)


@primitive
def is_str(v):
    return isinstance(v, str)


@primitive
def is_False(v):
    return v is False


@primitive
def is_None(v):
    return v is None


@primitive
def is_int(v):
    return isinstance(v, int) and not isinstance(v, bool)


@primitive
def is_list(v):
    return isinstance(v, list)


@primitive
def same_object(a, b):
    return a is b


# ------------------------------------------------------------------ note names

LETTERS = "CDEFGAB"


def is_letter(c):
    return c in "ABCDEFG"


def base(c):
    """natural pitch class of a letter"""
    return (0 if c == "C" else 2 if c == "D" else 4 if c == "E" else 5 if c == "F"
            else 7 if c == "G" else 9 if c == "A" else 11 if c == "B" else -1000)


def lidx(c):
    """letter index C=0 .. B=6"""
    return (0 if c == "C" else 1 if c == "D" else 2 if c == "E" else 3 if c == "F"
            else 4 if c == "G" else 5 if c == "A" else 6 if c == "B" else -1000)


def letter_at(i):
    """inverse of lidx on 0..6"""
    return ("C" if i == 0 else "D" if i == 1 else "E" if i == 2 else "F" if i == 3
            else "G" if i == 4 else "A" if i == 5 else "B")


def lup(c, k):
    """the letter k letters above c (k may be negative)"""
    return letter_at((lidx(c) + k) % 7)


def sharps(s):
    return cnt_sharp(s, 1, len(s))


def flats(s):
    return cnt_flat(s, 1, len(s))


def others(s):
    return cnt_other(s, 1, len(s))


def is_name(s):
    """a letter A-G followed by any string of '#' and 'b'"""
    return len(s) >= 1 and is_letter(s[0]) and cnt_other(s, 1, len(s)) == 0


def net_upto(s, i):
    """sharps minus flats among s[1:i]"""
    return cnt_sharp(s, 1, i) - cnt_flat(s, 1, i)


def net(s):
    return cnt_sharp(s, 1, len(s)) - cnt_flat(s, 1, len(s))


def pc(s):
    """pitch class of a note name"""
    return (base(s[0]) + net(s)) % 12


def canon(s):
    """a name that does not mix sharps with flats"""
    return is_name(s) and (cnt_sharp(s, 1, len(s)) == 0 or cnt_flat(s, 1, len(s)) == 0)


def shape(s, letter, j):
    """s is `letter` followed by j sharps (j >= 0) or -j flats (j < 0), nothing else"""
    return (len(s) == 1 + abs(j) and s[0] == letter and cnt_other(s, 1, len(s)) == 0
            and (cnt_flat(s, 1, len(s)) == 0 if j >= 0 else cnt_sharp(s, 1, len(s)) == 0))


def fold6(a):
    """the accidental normaliser's effect: bring a into -6..6 by an octave"""
    return a - 12 if a > 6 else a + 12 if a < -6 else a


def natdist(c1, c2):
    """semitones from natural c1 up to natural c2, in 0..11"""
    return (base(c2) - base(c1)) % 12


def is_natural_pc(i):
    """pitch classes of the seven naturals"""
    return i == 0 or i == 2 or i == 4 or i == 5 or i == 7 or i == 9 or i == 11


# ------------------------------------------------------------------ keys (computed from the circle of fifths)

def _spell(letter, pcv):
    """letter + the accidentals that put it on pitch class pcv (nearest spelling)"""
    acc = ((pcv - base(letter) + 6) % 12) - 6
    return letter + ("#" * acc if acc > 0 else "b" * (-acc))


@primitive
def key_of_signature(n, minor):
    """the major (or relative minor) key with n sharps (n > 0) / -n flats (n < 0), -7 <= n <= 7"""
    steps = n + (3 if minor else 0)          # the relative minor lies three fifths up
    letter = LETTERS[(4 * steps) % 7]       # a fifth is four letters up
    acc = (steps + 1) // 7                   # ... F C G D A E B | F# C# ... : seven fifths add one sharp
    name = letter + ("#" * acc if acc > 0 else "b" * (-acc))
    return name.lower() if minor else name


@primitive
def all_keys():
    return tuple(key_of_signature(n, m) for n in range(-7, 8) for m in (False, True))


KEYS30 = all_keys()
MAJOR15 = tuple(key_of_signature(n, False) for n in range(-7, 8))
MINOR15 = tuple(key_of_signature(n, True) for n in range(-7, 8))


def is_key(k):
    return k in KEYS30


def is_major_key(k):
    return k in MAJOR15


def is_minor_key(k):
    return k in MINOR15


@primitive
def key_sig(key):
    """signature number of a key: sharps positive, flats negative"""
    for n in range(-7, 8):
        if key_of_signature(n, False) == key or key_of_signature(n, True) == key:
            return n
    raise ValueError(key)


@primitive
def key_notes(key):
    """the seven notes of a major / natural minor key, from its step pattern"""
    minor = key[0].islower()
    pattern = (2, 1, 2, 2, 1, 2, 2) if minor else (2, 2, 1, 2, 2, 2, 1)
    tonic = key[0].upper() + key[1:]
    p = (base(tonic[0]) + tonic[1:].count("#") - tonic[1:].count("b")) % 12
    # spelling of each degree follows the key signature: within a key every letter is used once, and
    # the accidental is whatever puts that letter on the pattern's pitch class (|acc| <= 1 for these 30 keys,
    # except that nearest-spelling is unique because |acc| <= 1 < 6)
    out = []
    for i in range(7):
        out.append(_spell(lup(tonic[0], i), p))
        p = (p + pattern[i]) % 12
    return out


@primitive
def key_accidentals(key):
    """accidentals of the key signature in circle-of-fifths order"""
    n = key_sig(key)
    sharps_order = "FCGDAEB"
    if n > 0:
        return [c + "#" for c in sharps_order[:n]]
    if n < 0:
        return [c + "b" for c in sharps_order[::-1][:-n]]
    return []


def semis(a, b):
    """semitones from name a up to name b, 0..11"""
    return (pc(b) - pc(a)) % 12
