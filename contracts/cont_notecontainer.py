"""Contracts for mingus.containers.note_container.NoteContainer and instrument ranges (C12, C14: per-call clauses on
containers holding up to two notes; whole histories are the drivers')."""

M = "mingus.containers.note_container.NoteContainer."
CONTRACTS = {}
CLASSES = {
    "NoteContainer": {"class": "mingus.containers.note_container.NoteContainer", "fields": {"notes": "[Note]"}},
    "Instrument": {"class": "mingus.containers.instrument.Instrument", "fields": {"range": "(Note,Note)"}},
}
SIZES = ["[]", "[Note]", "[Note,Note]"]
RI = ("all([is_name(n.name) for n in self.notes]) and "
      "all([pitch(self.notes[i]) < pitch(self.notes[i + 1]) for i in range(len(self.notes) - 1)])")
SORTED = "all([pitch(self.notes[i]) < pitch(self.notes[i + 1]) for i in range(len(self.notes) - 1)])"

CONTRACTS[M + "add_note"] = dict(
    params={"self": "NoteContainer", "note": "Note", "octave": "None", "dynamics": "None"},
    requires=[("pitch-ordered-duplicate-free", RI), ("valid-note", "is_name(note.name)")],
    old={"old_pitches": "[pitch(n) for n in self.notes]", "old_len": "len(self.notes)"},
    returns="list[any]",
    ensures=[("still-pitch-ordered-and-duplicate-free", SORTED),
             ("holds-the-new-pitch", "any([pitch(n) == pitch(note) for n in self.notes])"),
             ("keeps-every-old-pitch", "all([any([pitch(n) == p for n in self.notes]) for p in old_pitches])"),
             ("grows-by-one-unless-the-pitch-was-there",
              "len(self.notes) == old_len + (0 if any([p == pitch(note) for p in old_pitches]) else 1)")],
    modifies=["param:self", "param:self.notes"],
    split=[{"field_types": {"self.notes": sz}} for sz in SIZES], split_is_domain=True,
    split_thorough=[{"field_types": {"self.notes": "[" + ",".join(["Note"] * k) + "]"}} for k in range(0, 4)],
    variants=[dict(
        name="bare-name",
        params={"self": "NoteContainer", "note": "str", "octave": "None", "dynamics": "None"},
        requires=[("pitch-ordered-duplicate-free", RI), ("valid-name", "is_name(note)")],
        old={"old_pitches": "[pitch(n) for n in self.notes]", "old_len": "len(self.notes)",
             "old_top": "(pitch(self.notes[len(self.notes) - 1]) if len(self.notes) > 0 else -1)"},
        ensures=[("still-pitch-ordered-and-duplicate-free", SORTED),
                 ("keeps-every-old-pitch", "all([any([pitch(n) == p for n in self.notes]) for p in old_pitches])"),
                 ("first-name-goes-to-octave-4", "old_len > 0 or (len(self.notes) == 1 and self.notes[0].octave == 4 "
                                                 "and self.notes[0].name == note)"),
                 ("voiced-at-or-above-the-top-note-less-than-an-octave-above",
                  "old_len == 0 or any([(pitch(n) - name_pitch(note, 0)) % 12 == 0 and old_top <= pitch(n) and "
                  "pitch(n) < old_top + 12 for n in self.notes])")])],
    notes="domain: containers holding 0, 1 or 2 notes with ARBITRARY pitches and spellings (the operation reads only the "
          "top note and membership)",
    properties=["C12", "C18"], battery="nc_add")

I = "mingus.containers.instrument.Instrument."
CONTRACTS[I + "note_in_range"] = dict(
    params={"self": "Instrument", "note": "Note"},
    requires="is_name(note.name) and is_name(self.range[0].name) and is_name(self.range[1].name)",
    returns="bool", modifies=[],
    ensures=[("inside-iff-between-the-range-ends",
              "result == (pitch(self.range[0]) <= pitch(note) and pitch(note) <= pitch(self.range[1]))")],
    properties=["C14"], battery="instr_note")

# copying / merging another container: the receiver ends with its OWN list (never the argument's), the argument is left
# as it was, and the result holds exactly the pitches of both, pitch-ordered and duplicate-free
_OTHER_OK = "all([is_name(n.name) for n in notes.notes])"
CONTRACTS[M + "add_notes"] = dict(
    params={"self": "NoteContainer", "notes": "NoteContainer"},
    requires=[("pitch-ordered-duplicate-free", RI), ("valid-notes", _OTHER_OK),
              ("argument-duplicate-free", "all([pitch(notes.notes[i]) < pitch(notes.notes[i + 1]) for i in range(len(notes.notes) - 1)])")],
    old={"old_pitches": "[pitch(n) for n in self.notes]", "other_pitches": "[pitch(n) for n in notes.notes]",
         "other_list": "notes.notes", "other_len": "len(notes.notes)"},
    returns="list[any]",
    ensures=[("returns-its-own-note-list", "same_object(result, self.notes)"),
             ("own-list-never-the-arguments", "not same_object(self.notes, notes.notes)"),
             ("argument-left-as-it-was", "len(notes.notes) == other_len and list_prefix_same(notes.notes, other_list, other_len)"),
             ("still-pitch-ordered-and-duplicate-free", SORTED),
             ("keeps-every-old-pitch", "all([any([pitch(n) == p for n in self.notes]) for p in old_pitches])"),
             ("holds-every-pitch-of-the-argument", "all([any([pitch(n) == p for n in self.notes]) for p in other_pitches])"),
             ("and-nothing-else", "all([any([pitch(n) == p for p in old_pitches + other_pitches]) for n in self.notes])"),
             ("a-note-taken-over-keeps-its-name-octave-channel-and-velocity",
              "all([any([n.name == m.name and n.octave == m.octave and n.channel == m.channel and n.velocity == m.velocity "
              "for n in self.notes]) for m in notes.notes if not any([p == pitch(m) for p in old_pitches])])")],
    modifies=["param:self", "param:self.notes"],
    inline_callees=[M + "add_note"],
    split=[{"field_types": {"self.notes": a, "notes.notes": b}} for a in SIZES[:2] for b in SIZES], split_is_domain=True,
    notes="domain: receiver holding 0 or 1 notes, argument holding 0, 1 or 2 notes, arbitrary pitches and spellings",
    properties=["C12", "C13", "C15", "C18"], battery="nc_merge")

# removal: by name removes that name in every octave, with an octave only that one, by Note every note of that pitch;
# everything else stays, in order, as the same objects
_KEEP_NAME = "(n.name != note or (octave != -1 and n.octave != octave))"
SIZES4 = SIZES + ["[Note,Note,Note]"]
CONTRACTS[M + "remove_note"] = dict(
    params={"self": "NoteContainer", "note": "str", "octave": "int"},
    requires=[("valid-names", "all([is_name(n.name) for n in self.notes])")],
    old={"old_notes": "[n for n in self.notes]", "old_list": "self.notes"}, old_by_reference=["old_list", "old_notes"],
    returns="list[any]",
    ensures=[("returns-its-own-note-list", "same_object(result, self.notes)"),
             ("the-list-it-held-before-is-not-edited", "list_same_objects(old_list, old_notes)"),
             ("keeps-exactly-the-others-in-order",
              "list_same(self.notes, [n for n in old_notes if %s])" % _KEEP_NAME)],
    modifies=["param:self"],
    split=[{"field_types": {"self.notes": sz}} for sz in SIZES4], split_is_domain=True,
    split_thorough=[{"field_types": {"self.notes": "[" + ",".join(["Note"] * k) + "]"}} for k in range(0, 5)],
    variants=[dict(
        name="by-note", params={"self": "NoteContainer", "note": "Note", "octave": "int"},
        requires=[("valid-names", "all([is_name(n.name) for n in self.notes]) and is_name(note.name)")],
        ensures=[("returns-its-own-note-list", "same_object(result, self.notes)"),
                 ("the-list-it-held-before-is-not-edited", "list_same_objects(old_list, old_notes)"),
                 ("keeps-exactly-the-notes-of-other-pitch-in-order",
                  "list_same(self.notes, [n for n in old_notes if pitch(n) != pitch(note)])")])],
    notes="domain: containers of 0..3 notes with arbitrary names, octaves and order",
    properties=["C12"], battery="nc_remove")

# consonance predicates of a container: true exactly when EVERY pair of notes (in container order, lower index first)
# satisfies the pairwise predicate, stated here by the semitone distance of the two names
_PAIRS = "[(self.notes[i].name, self.notes[j].name) for i in range(len(self.notes)) for j in range(i + 1, len(self.notes))]"


def _pairs_expr(k):
    return "[" + ", ".join("(self.notes[%d].name, self.notes[%d].name)" % (i, j) for i in range(k) for j in range(i + 1, k)) + "]"


_PRED = {
    "is_consonant": ("(semis(p[0], p[1]) in (0, 7, 3, 4, 8, 9) or (include_fourths and semis(p[0], p[1]) == 5))", True),
    "is_perfect_consonant": ("(semis(p[0], p[1]) == 0 or semis(p[0], p[1]) == 7 or (include_fourths and semis(p[0], p[1]) == 5))", True),
    "is_imperfect_consonant": ("(semis(p[0], p[1]) in (3, 4, 8, 9))", False),
}
# is_dissonant is the complement of is_consonant with the flag inverted: SOME pair is dissonant (a fourth counts as
# dissonant exactly when include_fourths is set) -- the reading the C12 driver uses as well; 'every pair dissonant' is
# not what the code computes and not what a chord being dissonant means
_DIS = "(semis(p[0], p[1]) in (0, 7, 3, 4, 8, 9) or ((not include_fourths) and semis(p[0], p[1]) == 5))"
for _nm, (_pp, _flag) in _PRED.items():
    _params = {"self": "NoteContainer"}
    if _flag:
        _params["include_fourths"] = "bool"
    CONTRACTS[M + _nm] = dict(
        params=_params, requires=[("valid-names", "all([is_name(n.name) for n in self.notes])"), ("at-most-4-notes", "len(self.notes) <= 4")],
        returns="bool",
        cases=[dict(when="len(self.notes) == %d" % k, returns="bool",
                    ensures=[("true-exactly-when-every-pair-satisfies-the-pairwise-predicate",
                              "result == all([%s for p in %s])" % (_pp, _pairs_expr(k)))]) for k in range(0, 5)],
        modifies=[], split=[{"field_types": {"self.notes": "[" + ",".join(["Note"] * k) + "]"}} for k in range(0, 5)],
        split_is_domain=True, inline_callees=[M + "_consonance_test"],
        notes="domain: containers of 0..4 notes (0..6 pairs), arbitrary names",
        properties=["C12"], battery="nc_flag" if _flag else "nc_only")

CONTRACTS[M + "is_dissonant"] = dict(
    params={"self": "NoteContainer", "include_fourths": "bool"},
    requires=[("valid-names", "all([is_name(n.name) for n in self.notes])"), ("at-most-4-notes", "len(self.notes) <= 4")],
        returns="bool",
    cases=[dict(when="len(self.notes) == %d" % k, returns="bool",
                ensures=[("true-exactly-when-some-pair-is-dissonant",
                          "result == (not all([%s for p in %s]))" % (_DIS, _pairs_expr(k)))]) for k in range(0, 5)],
    modifies=[], split=[{"field_types": {"self.notes": "[" + ",".join(["Note"] * k) + "]"}} for k in range(0, 5)],
    split_is_domain=True, inline_callees=[M + "_consonance_test", M + "is_consonant"],
    notes="domain: containers of 0..4 notes, arbitrary names", properties=["C12"], battery="nc_flag")

CONTRACTS[M + "get_note_names"] = dict(
    params={"self": "NoteContainer"}, returns="list[any]", modifies=[],
    ensures=[("every-name-once-in-order-of-first-occurrence", "list_same(result, uniq_in_order([n.name for n in self.notes]))"),
             ("fresh-list", "is_fresh(result)")],
    split=[{"field_types": {"self.notes": "[" + ",".join(["Note"] * k) + "]"}} for k in range(0, 4)], split_is_domain=True,
    notes="domain: containers of 0..3 notes with arbitrary (also equal) names", properties=["C12"], battery="nc_only")

# lifting of transposition / augmentation / diminution to a container: every note, exactly once, by the same amount
from contracts.cont_note import _SG as _TSG, _SIZE as _TSIZE  # noqa: E402
_NOTES_OK = "all([canon(n.name) and abs(net(n.name)) <= 4 for n in self.notes])"
CONTRACTS[M + "transpose"] = dict(
    params={"self": "NoteContainer", "interval": "str", "up": "bool"},
    requires=[("names-up-to-double-accidentals", _NOTES_OK),
              ("shorthand-up-to-two-accidentals",
               "is_interval_shorthand(interval) and len(interval) <= 3 and "
               "(cnt_sharp(interval, 0, len(interval) - 1) == 0 or cnt_flat(interval, 0, len(interval) - 1) == 0)"),
              ("size-0-to-11", "0 <= %s and %s <= 11" % (_TSIZE, _TSIZE)),
              ("distinct-note-objects", "all_distinct_objects(self.notes)")],
    returns="NoteContainer",
    old={"old_pitches": "[pitch(n) for n in self.notes]", "old_notes": "[n for n in self.notes]"},
    old_by_reference=["old_notes"],
    ensures=[("returns-the-container", "same_object(result, self)"),
             ("same-note-objects-in-the-same-order", "list_same_objects(self.notes, old_notes)"),
             ("every-note-moved-by-exactly-the-interval",
              "all([pitch(self.notes[i]) == old_pitches[i] + %s * %s for i in range(len(self.notes))])" % (_TSG, _TSIZE))],
    modifies=["param:self"],
    split=[{"field_types": {"self.notes": "[" + ",".join(["Note"] * k) + "]"}} for k in range(0, 4)], split_is_domain=True,
    notes="domain: containers of 0..3 distinct Note objects (names up to four accidentals), any shorthand with up to two "
          "accidentals and size 0..11, up and down; a container holding the same Note object twice would move it twice",
    properties=["C11"], battery="nc_transpose")
for _nm, _d in (("augment", 1), ("diminish", -1)):
    CONTRACTS[M + _nm] = dict(
        params={"self": "NoteContainer"},
        requires=[("valid-names", "all([is_name(n.name) for n in self.notes])"),
                  ("distinct-note-objects", "all_distinct_objects(self.notes)")],
        returns="None",
        old={"old_pitches": "[pitch(n) for n in self.notes]", "old_notes": "[n for n in self.notes]"},
        old_by_reference=["old_notes"],
        ensures=[("same-note-objects-in-the-same-order", "list_same_objects(self.notes, old_notes)"),
                 ("every-note-moved-by-one-semitone",
                  "all([pitch(self.notes[i]) == old_pitches[i] + %d for i in range(len(self.notes))])" % _d)],
        modifies=["param:self"],
        split=[{"field_types": {"self.notes": "[" + ",".join(["Note"] * k) + "]"}} for k in range(0, 4)], split_is_domain=True,
        properties=["C11"], battery="nc_only_distinct")

CONTRACTS[M + "__add__"] = dict(
    params={"self": "NoteContainer", "notes": "NoteContainer"},
    requires=[("pitch-ordered-duplicate-free", RI), ("valid-notes", _OTHER_OK)],
    returns="NoteContainer", ensures=[("returns-self", "same_object(result, self)")],
    modifies=["param:self", "param:self.notes"], inline_callees=[M + "add_notes", M + "add_note"],
    split=[{"field_types": {"self.notes": a, "notes.notes": b}} for a in SIZES[:2] for b in SIZES[:2]], split_is_domain=True,
    notes="'+' is add_notes and hands back the receiver", properties=["C12"], battery="nc_merge")


# equality of containers: same number of notes and every note of the one has a note of equal PITCH in the other
# (spelling does not matter: C# and Db are the same key)
CONTRACTS[M + "__eq__"] = dict(
    params={"self": "NoteContainer", "other": "NoteContainer"},
    requires=[("valid-names", "all([is_name(n.name) for n in self.notes]) and all([is_name(n.name) for n in other.notes])")],
    returns="bool",
    ensures=[("same-size-and-every-pitch-found-in-the-other",
              "result == (len(self.notes) == len(other.notes) and "
              "all([any([pitch(x) == pitch(y) for y in other.notes]) for x in self.notes]))")],
    modifies=[],
    split=[{"field_types": {"self.notes": a, "other.notes": b}} for a in SIZES for b in SIZES], split_is_domain=True,
    variants=[dict(name="none", params={"self": "NoteContainer", "other": "None"}, requires=None, split=None,
                   ensures=[("never-equal-to-None", "result == False")])],
    notes="domain: containers of 0..2 notes each, arbitrary names and octaves",
    properties=["C12", "C14"], battery="nc_pairs")

# range test of a whole container: every note inside the instrument's range (not just the outer ones)
_INR = "(pitch(self.range[0]) <= pitch(n) and pitch(n) <= pitch(self.range[1]))"
CONTRACTS[I + "can_play_notes"] = dict(
    params={"self": "Instrument", "notes": "NoteContainer"},
    requires="is_name(self.range[0].name) and is_name(self.range[1].name) and all([is_name(n.name) for n in notes.notes])",
    returns="bool", modifies=[],
    ensures=[("true-exactly-when-every-note-is-inside-the-range", "result == all([%s for n in notes.notes])" % _INR)],
    split=[{"field_types": {"notes.notes": "[" + ",".join(["Note"] * k) + "]"}} for k in range(0, 5)], split_is_domain=True,
    variants=[dict(name="single-note", params={"self": "Instrument", "notes": "Note"},
                   requires="is_name(self.range[0].name) and is_name(self.range[1].name) and is_name(notes.name)",
                   ensures=[("the-note-inside-the-range",
                             "result == (pitch(self.range[0]) <= pitch(notes) and pitch(notes) <= pitch(self.range[1]))")],
                   split=None)],
    notes="domain: containers of 0..4 notes in ANY order and spelling, arbitrary range notes",
    properties=["C14"], battery="instr_nc")

CONTRACTS[I + "set_range"] = dict(
    params={"self": "Instrument", "range": "(Note,Note)"}, returns="None",
    ensures=[("the-two-notes-are-the-range", "same_object(self.range[0], range[0]) and same_object(self.range[1], range[1])")],
    modifies=["param:self"], properties=["C14"], battery=None,
    variants=[dict(name="names", params={"self": "Instrument", "range": "(str,str)"},
                   requires="is_name(range[0]) and is_name(range[1])",
                   ensures=[("notes-of-those-names-in-octave-4",
                             "self.range[0].name == range[0] and self.range[1].name == range[1] and "
                             "self.range[0].octave == 4 and self.range[1].octave == 4"),
                            ("new-note-objects", "is_fresh(self.range)")]),
              dict(name="neither", params={"self": "Instrument", "range": "(int,int)"}, ensures=[],
                   raises={"UnexpectedObjectError": "True"})])

# removal of several notes, and the '-' operator form: a single name or Note goes to remove_note; a list is removed name
# by name; '-' hands back the receiver itself
_KEEP1 = "n.name != notes"
_KEEP2 = "(n.name != notes[0] and n.name != notes[1])"
for _fn, _ret, _res in (("remove_notes", "any", None), ("__sub__", "NoteContainer", "same_object(result, self)")):
    _extra = [("returns-the-container-itself", _res)] if _res else []
    CONTRACTS[M + _fn] = dict(
        params={"self": "NoteContainer", "notes": "str"},
        requires=[("valid-names", "all([is_name(n.name) for n in self.notes])")],
        old={"old_notes": "[n for n in self.notes]", "old_list": "self.notes"}, old_by_reference=["old_list", "old_notes"],
        returns=_ret,
        ensures=_extra + [("the-list-it-held-before-is-not-edited", "list_same_objects(old_list, old_notes)"),
                          ("keeps-exactly-the-notes-of-other-names-in-order",
                           "list_same(self.notes, [n for n in old_notes if %s])" % _KEEP1)],
        modifies=["param:self"],
        split=[{"field_types": {"self.notes": sz}} for sz in SIZES4], split_is_domain=True,
        variants=[dict(
            name="two-names", params={"self": "NoteContainer", "notes": "[str,str]"},
            ensures=_extra + [("the-list-it-held-before-is-not-edited", "list_same_objects(old_list, old_notes)"),
                              ("keeps-exactly-the-notes-of-other-names-in-order",
                               "list_same(self.notes, [n for n in old_notes if %s])" % _KEEP2)]),
            dict(name="by-note", params={"self": "NoteContainer", "notes": "Note"},
                 requires=[("valid-names", "all([is_name(n.name) for n in self.notes]) and is_name(notes.name)")],
                 ensures=_extra + [("the-list-it-held-before-is-not-edited", "list_same_objects(old_list, old_notes)"),
                                   ("keeps-exactly-the-notes-of-other-pitch-in-order",
                                    "list_same(self.notes, [n for n in old_notes if pitch(n) != pitch(notes)])")])],
        notes="domain: containers of 0..3 notes with arbitrary names, octaves and order; a name, a list of two names, or a Note",
        properties=["C12"], battery="nc_remove_many")

# the alias, and the guitar (six strings: more than six notes at once are never playable)
CONTRACTS[I + "notes_in_range"] = dict(
    params={"self": "Instrument", "notes": "NoteContainer"},
    requires="is_name(self.range[0].name) and is_name(self.range[1].name) and all([is_name(n.name) for n in notes.notes])",
    returns="bool", modifies=[],
    ensures=[("true-exactly-when-every-note-is-inside-the-range", "result == all([%s for n in notes.notes])" % _INR)],
    split=[{"field_types": {"notes.notes": "[" + ",".join(["Note"] * k) + "]"}} for k in range(0, 5)], split_is_domain=True,
    properties=["C14"], battery="instr_nc")
CLASSES["GuitarI"] = dict(CLASSES["Instrument"], **{"class": "mingus.containers.instrument.Guitar"})
CONTRACTS["mingus.containers.instrument.Guitar.can_play_notes"] = dict(
    params={"self": "GuitarI", "notes": "NoteContainer"},
    requires="is_name(self.range[0].name) and is_name(self.range[1].name) and all([is_name(n.name) for n in notes.notes])",
    returns="bool", modifies=[],
    ensures=[("at-most-six-notes-all-inside-the-range",
              "result == (len(notes.notes) <= 6 and all([%s for n in notes.notes]))" % _INR)],
    split=[{"field_types": {"notes.notes": "[" + ",".join(["Note"] * k) + "]"}} for k in (0, 1, 2, 6, 7)], split_is_domain=True,
    inline_callees=[I + "can_play_notes"],
    notes="domain: containers of 0, 1, 2, 6 and 7 notes (both sides of the six-string limit), any order and spelling",
    properties=["C14"], battery="guitar_nc")

# an interval stacked on a START NOTE OBJECT: the container holds that very object and a transposed COPY of it; the
# caller's note is left as it was (it may sit in other containers)
_ISZ = "(maj_semis(digit(shorthand[len(shorthand) - 1])) + sh_acc(shorthand))"
CONTRACTS[M + "from_interval_shorthand"] = dict(
    params={"self": "NoteContainer", "startnote": "Note", "shorthand": "str", "up": "bool"},
    requires=[("name-up-to-double-accidentals", "canon(startnote.name) and abs(net(startnote.name)) <= 4"),
              ("valid-names", "all([is_name(n.name) for n in self.notes])"),
              ("channel-and-velocity-in-range", "0 <= startnote.channel and startnote.channel < 16 and "
                                                "0 <= startnote.velocity and startnote.velocity < 128"),
              ("shorthand-up-to-two-accidentals",
               "is_interval_shorthand(shorthand) and len(shorthand) <= 3 and "
               "(cnt_sharp(shorthand, 0, len(shorthand) - 1) == 0 or cnt_flat(shorthand, 0, len(shorthand) - 1) == 0)"),
              ("size-0-to-11", "0 <= %s and %s <= 11" % (_ISZ, _ISZ))],
    old={"old_name": "startnote.name", "old_octave": "startnote.octave", "old_pitch": "pitch(startnote)"},
    returns="NoteContainer",
    ensures=[("returns-the-container-itself", "same_object(result, self)"),
             ("the-start-note-is-left-as-it-was", "startnote.name == old_name and startnote.octave == old_octave"),
             ("holds-the-start-note-object", "any([same_object(n, startnote) for n in self.notes])"),
             ("and-otherwise-only-a-note-at-the-interval",
              "len(self.notes) <= 2 and all([same_object(n, startnote) or "
              "pitch(n) == old_pitch + (1 if up else -1) * %s for n in self.notes])" % _ISZ),
             ("two-notes-unless-the-interval-is-a-unison", "len(self.notes) == (1 if %s == 0 else 2)" % _ISZ)],
    modifies=["param:self"],
    split=[{"field_types": {"self.notes": sz}, "bind": {"up": u}} for sz in SIZES[:2] for u in (True, False)],
    split_is_domain=True,
    inline_callees=["mingus.containers.note.Note.__init__", "mingus.containers.note.Note.set_note"],
    properties=["C12", "C11"], battery="nc_interval_note")
