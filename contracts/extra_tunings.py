"""Contracts for mingus.extra.tunings.StringTuning (C20: fret arithmetic)."""
import itertools

M = "mingus.extra.tunings.StringTuning."
CONTRACTS = {}
CLASSES = {
    "StringTuning": {"class": "mingus.extra.tunings.StringTuning", "fields": {"tuning": "[Note]"}},
}

# every shape of tuning with 1..6 strings, each a single string or a course (the registry has 3..6 strings)
SHAPES = []
for _k in range(1, 4):
    for _mask in itertools.product((0, 2), repeat=_k):
        SHAPES.append(_mask)
# ... plus every shape that occurs among the 76 registered tunings (0 = single string, n = course of n strings)
for _sh in [(0, 0, 0), (0, 0, 0, 0), (0, 0, 0, 0, 0), (0, 0, 0, 0, 0, 0), (0, 2, 2, 2, 0), (2, 2, 2), (2, 2, 2, 2),
            (2, 2, 2, 2, 2), (2, 2, 2, 2, 2, 2), (3, 3, 3, 3)]:
    if _sh not in SHAPES:
        SHAPES.append(_sh)
SHAPE_LEN = dict(("[" + ",".join("[" + ",".join(["Note"] * c) + "]" if c else "Note" for c in sh) + "]", len(sh))
                 for sh in SHAPES)
SHAPES = list(SHAPE_LEN)
_VALID = "all([all_valid_names(t) for t in self.tuning])"
_D = "(pitch(note) - pitch(open_string(self.tuning[i])))"

# one task per shape; the long shapes (5 and more strings: 2^n paths) are cut further by whether the note is playable on
# the first two strings (a complete case distinction, so the union is still the whole shape)
_FF_SPLIT = []
for _sh in SHAPES:
    if SHAPE_LEN[_sh] >= 5:
        _in = lambda i: "(0 <= %s and %s <= maxfret)" % (_D.replace("[i]", "[%d]" % i), _D.replace("[i]", "[%d]" % i))
        for _a in (True, False):
            for _b in (True, False):
                _FF_SPLIT.append({"field_types": {"self.tuning": _sh},
                                  "assume": "%s%s and %s%s" % ("" if _a else "not ", _in(0), "" if _b else "not ", _in(1))})
    else:
        _FF_SPLIT.append({"field_types": {"self.tuning": _sh}})

CONTRACTS[M + "find_frets"] = dict(
    params={"self": "StringTuning", "note": "Note", "maxfret": "int"},
    requires=[("valid-names", _VALID + " and is_name(note.name)")],
    returns="list[any]", modifies=[],
    ensures=[("one-entry-per-string", "len(result) == len(self.tuning)"),
             ("fret-is-the-semitone-distance-when-within-0-maxfret-else-None",
              "all([(is_None(result[i]) == (not (0 <= %s and %s <= maxfret))) and "
              "((not (0 <= %s and %s <= maxfret)) or result[i] == %s) for i in range(len(self.tuning))])"
              % (_D, _D, _D, _D, _D))],
    split=_FF_SPLIT, split_is_domain=True,
    notes="domain: every tuning shape with 1..3 strings (each a single string or a two-string course) plus every shape "
          "that occurs among the 76 registered tunings (3..6 strings, courses of 2 or 3), with ARBITRARY open-string "
          "notes, arbitrary note and maxfret",
    properties=["C20"], battery="tuning_note")

_GN = []
for _sh in SHAPES:
    _k = SHAPE_LEN[_sh]
    for _s in range(_k):
        _GN.append({"field_types": {"self.tuning": _sh}, "bind": {"string": _s}})
    _GN.append({"field_types": {"self.tuning": _sh}, "assume": "string < 0 or string >= %d" % _k})
CONTRACTS[M + "get_Note"] = dict(
    params={"self": "StringTuning", "string": "int", "fret": "int", "maxfret": "int"},
    requires=[("valid-names", _VALID), ("non-negative-pitches", "all([pitch(open_string(t)) >= 0 for t in self.tuning])")],
    returns="Note", modifies=[],
    ensures=[("open-string-raised-by-fret-semitones", "pitch(result) == pitch(open_string(self.tuning[string])) + fret"),
             ("records-string-and-fret", "result.string == string and result.fret == fret"),
             ("a-new-note-object-every-time", "is_fresh(result)")],
    raises={"RangeError": "string < 0 or string >= len(self.tuning) or fret < 0 or fret > maxfret"},
    split=_GN, split_is_domain=True,
    properties=["C20"], battery="tuning_string_fret")

CONTRACTS[M + "count_strings"] = dict(
    params={"self": "StringTuning"}, returns="int", modifies=[],
    ensures=[("number-of-strings", "result == len(self.tuning)")],
    split=[{"field_types": {"self.tuning": sh}} for sh in SHAPES], split_is_domain=True,
    properties=["C20"], battery="tuning_only")

CONTRACTS["mingus.extra.tunings.fingers_needed"] = dict(
    params={"fingering": "list[any]"},
    requires=[("frets-0-to-24-at-least-one-pressed",
               "all([0 <= x and x <= 24 for x in fingering]) and any([x != 0 for x in fingering])")],
    returns="int", modifies=[],
    ensures=[("one-finger-per-pressed-string-barre-counted-once", "result == fingers_spec(fingering)")],
    split=[{"param_types": {"fingering": "[" + ",".join(["int"] * k) + "]"}} for k in range(1, 6)],
    split_thorough=[{"param_types": {"fingering": "[" + ",".join(["int"] * k) + "]"}} for k in range(1, 7)],
    split_is_domain=True, properties=["C20"], battery="fingerings",
    notes="domain: fingerings of 1..5 strings with arbitrary frets 0..24 (at least one pressed)")

CONTRACTS[M + "count_courses"] = dict(
    params={"self": "StringTuning"}, returns="real", modifies=[],
    ensures=[("strings-of-all-courses-over-the-number-of-courses",
              "feq(result * len(self.tuning), sum([(len(t) if is_list(t) else 1) for t in self.tuning]))")],
    split=[{"field_types": {"self.tuning": sh}} for sh in SHAPES], split_is_domain=True,
    properties=["C20"], battery="tuning_only")

CONTRACTS["mingus.extra.tablature._get_width"] = dict(
    params={"maxwidth": "int"}, returns="int", modifies=[],
    ensures=[("one-two-or-three-bars-per-line",
              "result == (maxwidth if maxwidth <= 60 else (maxwidth // 2 if maxwidth <= 120 else maxwidth // 3))")],
    properties=["C20"], battery="small_ints_wide")
