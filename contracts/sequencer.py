"""Contracts for mingus.midi.sequencer.Sequencer and sequencer_observer.SequencerObserver (C18, per-call clauses).

The subclass hooks (play_event, stop_event, cc_event, instr_event, sleep) and the delivery to listeners
(notify_listeners) are abstract: each is modelled as appending ONE record to a ghost event trace.  That
notify_listeners really reaches every listener, in order, with the same message is proved separately
(lemma c18_every_listener_in_order) on the real loop.
"""

M = "mingus.midi.sequencer.Sequencer."
CONTRACTS = {}
CLASSES = {
    "Sequencer": {"class": "mingus.midi.sequencer.Sequencer", "fields": {"listeners": "list[any]"}},
}


def _c(name, **kw):
    kw.setdefault("properties", ["C18"])
    CONTRACTS[M + name] = kw


for _h in ("play_event", "stop_event", "cc_event", "instr_event", "sleep"):
    _c(_h, trace=_h, params={})
_c("notify_listeners", trace="notify", params={})

_c("control_change",
   params={"self": "Sequencer", "channel": "int", "control": "int", "value": "int"}, returns="bool",
   cases=[dict(when="control < 0 or control > 128 or value < 0 or value > 128", returns="bool",
               ensures=[("refused", "result == False")], emits="[]"),
          dict(when=None, returns="bool",
               ensures=[("accepted", "result == True")],
               emits="[('cc_event', channel, control, value), "
                     "('notify', 2, {'channel': channel, 'control': control, 'value': value})]")],
   modifies=[], battery="seq_cc")

_c("set_instrument",
   params={"self": "Sequencer", "channel": "int", "instr": "int", "bank": "int"}, returns="None",
   emits="[('instr_event', channel, instr, bank), ('notify', 3, {'channel': channel, 'instr': instr, 'bank': bank})]",
   modifies=[], battery="seq_instr")

_c("play_Note",
   params={"self": "Sequencer", "note": "Note", "channel": "int", "velocity": "int"},
   requires="is_name(note.name)", returns="bool",
   ensures=[("returns-true", "result == True")],
   emits="[('play_event', pitch(note) + 12, note.channel, note.velocity), "
         "('notify', 0, {'channel': note.channel, 'note': pitch(note) + 12, 'velocity': note.velocity}), "
         "('notify', 5, {'channel': note.channel, 'note': note, 'velocity': note.velocity})]",
   modifies=[], battery="seq_note")
_c("stop_Note",
   params={"self": "Sequencer", "note": "Note", "channel": "int"},
   requires="is_name(note.name)", returns="bool",
   ensures=[("returns-true", "result == True")],
   emits="[('stop_event', pitch(note) + 12, note.channel), "
         "('notify', 1, {'channel': note.channel, 'note': pitch(note) + 12}), "
         "('notify', 6, {'channel': note.channel, 'note': note})]",
   modifies=[], battery="seq_note_stop")

for _nm, _cc in (("modulation", 1), ("main_volume", 7), ("pan", 10)):
    _c(_nm, params={"self": "Sequencer", "channel": "int", "value": "int"}, returns="bool",
       cases=[dict(when="value < 0 or value > 128", returns="bool",
                   ensures=[("refused", "result == False")], emits="[]"),
              dict(when=None, returns="bool",
                   ensures=[("accepted", "result == True"),
                            ("one-cc-event-then-one-notification",
                             "trace_events() == [('cc_event', channel, %d, value), "
                             "('notify', 2, {'channel': channel, 'control': %d, 'value': value})]" % (_cc, _cc))])],
       modifies=[], battery="seq_cc2")

# ---------------------------------------------------------------- SequencerObserver
O = "mingus.midi.sequencer_observer.SequencerObserver."
CLASSES["SequencerObserver"] = {"class": "mingus.midi.sequencer_observer.SequencerObserver", "fields": {}}
_CB = [  # message number, callback, parameter keys in call order
    (0, "play_int_note_event", ["note", "channel", "velocity"]), (1, "stop_int_note_event", ["note", "channel"]),
    (2, "cc_event", ["channel", "control", "value"]), (3, "instr_event", ["channel", "instr", "bank"]),
    (4, "sleep", ["s"]), (5, "play_Note", ["note", "channel", "velocity"]), (6, "stop_Note", ["note", "channel"]),
    (7, "play_NoteContainer", ["notes", "channel"]), (8, "stop_NoteContainer", ["notes", "channel"]),
    (9, "play_Bar", ["bar", "channel", "bpm"]), (10, "play_Bars", ["bars", "channels", "bpm"]),
    (11, "play_Track", ["track", "channel", "bpm"]), (12, "play_Tracks", ["tracks", "channels", "bpm"]),
    (13, "play_Composition", ["composition", "channels", "bpm"]),
]
for _n, _cb, _keys in _CB:
    CONTRACTS[O + _cb] = dict(trace="observer." + _cb, trace_self=True, params={}, properties=["C18"])
_ALLKEYS = sorted(set(k for _n, _cb, ks in _CB for k in ks))
CONTRACTS[O + "notify"] = dict(
    params={"self": "SequencerObserver", "msg_type": "int",
            "params": "dict[%s]" % ",".join("%s:any" % k for k in _ALLKEYS)},
    returns="None",
    cases=[dict(when="msg_type == %d" % n, returns="None",
                emits="[('observer.%s', self, %s)]" % (cb, ", ".join("params[%r]" % k for k in keys)))
           for n, cb, keys in _CB] +
          [dict(when=None, returns="None", emits="[]")],
    modifies=[], properties=["C18"], battery="observer_msgs")

# ---------------------------------------------------------------- containers of 0..3 notes (and None = a rest)
CLASSES["NoteContainer"] = {"class": "mingus.containers.note_container.NoteContainer", "fields": {"notes": "[Note]"}}
_NCV = "all([is_name(n.name) for n in nc.notes])"
_PLAY3 = ("[('play_event', pitch(n) + 12, n.channel, n.velocity), "
          "('notify', 0, {'channel': n.channel, 'note': pitch(n) + 12, 'velocity': n.velocity}), "
          "('notify', 5, {'channel': n.channel, 'note': n, 'velocity': n.velocity})]")
_STOP3 = ("[('stop_event', pitch(n) + 12, n.channel), ('notify', 1, {'channel': n.channel, 'note': pitch(n) + 12}), "
          "('notify', 6, {'channel': n.channel, 'note': n})]")
_SIZES = [{"field_types": {"nc.notes": "[" + ",".join(["Note"] * k) + "]"}} for k in range(0, 4)]
_c("play_NoteContainer",
   params={"self": "Sequencer", "nc": "NoteContainer", "channel": "int", "velocity": "int"}, requires=_NCV,
   returns="bool", ensures=[("returns-true", "result == True")],
   emits="[('notify', 7, {'notes': nc, 'channel': channel, 'velocity': velocity})] + sum([%s for n in nc.notes], [])" % _PLAY3,
   modifies=[], split=_SIZES, split_is_domain=True,
   variants=[dict(name="rest", params={"self": "Sequencer", "nc": "None", "channel": "int", "velocity": "int"},
                  requires=None, split=None, split_is_domain=None,
                  emits="[('notify', 7, {'notes': None, 'channel': channel, 'velocity': velocity})]")],
   notes="every note in order: exactly one play event with its own channel and velocity; containers of 0..3 notes",
   battery="seq_nc")
_c("stop_NoteContainer",
   params={"self": "Sequencer", "nc": "NoteContainer", "channel": "int"}, requires=_NCV,
   returns="bool", ensures=[("returns-true", "result == True")],
   emits="[('notify', 8, {'notes': nc, 'channel': channel})] + sum([%s for n in nc.notes], [])" % _STOP3,
   modifies=[], split=_SIZES, split_is_domain=True,
   variants=[dict(name="rest", params={"self": "Sequencer", "nc": "None", "channel": "int"},
                  requires=None, split=None, split_is_domain=None,
                  emits="[('notify', 8, {'notes': None, 'channel': channel})]")],
   battery="seq_nc_stop")


# ---------------------------------------------------------------- one bar, entry by entry (event view over the proved
# container players): bars of 0..3 entries, each a rest, a container, or a container carrying a tempo
CLASSES["SeqBar"] = {"class": "mingus.containers.bar.Bar", "fields": {"bar": "list[any]"}}
CLASSES["TempoContainer"] = {"class": "mingus.containers.note_container.NoteContainer",
                             "fields": {"notes": "[Note]", "bpm": "int"}}
_EK = ["[real,real,None]", "[real,real,NoteContainer]", "[real,real,TempoContainer]"]


def _seq_shapes(thorough=False):
    import itertools
    out = [[]]
    for n in ((1, 2, 3, 4) if thorough else (1, 2, 3)):
        out += [list(c) for c in itertools.product(_EK if (n < 3 or thorough and n < 4) else _EK[1:], repeat=n)]
    return out


_c("play_Bar",
   params={"self": "Sequencer", "bar": "SeqBar", "channel": "int", "bpm": "int"},
   requires=[("tempo-positive", "bpm > 0 and all([e[2] is None or not hasattr(e[2], 'bpm') or e[2].bpm > 0 for e in bar.bar])"),
             ("values-positive", "all([e[1] > 0 for e in bar.bar])"),
             ("valid-names", "all([e[2] is None or all([is_name(n.name) for n in e[2].notes]) for e in bar.bar])")],
   returns="dict[bpm:int]",
   ensures=[("returns-the-tempo-in-force-at-the-end", "result['bpm'] == seq_final_bpm(bar.bar, bpm)")],
   emits="[('notify', 9, {'bar': bar, 'channel': channel, 'bpm': bpm})] + seq_bar_events(bar.bar, channel, bpm)",
   callee_events={M + "play_NoteContainer": {"name": "play_NoteContainer", "assume": ["returns-true"]},
                  M + "stop_NoteContainer": {"name": "stop_NoteContainer", "assume": ["returns-true"]}},
   split=[{"field_types": {"bar.bar": "[" + ",".join(sh) + "]"}} for sh in _seq_shapes()], split_is_domain=True,
   split_thorough=[{"field_types": {"bar.bar": "[" + ",".join(sh) + "]"}} for sh in _seq_shapes(True)],
   modifies=[], battery="seq_bar",
   notes="domain: bars of 0..3 entries (rest / container / container with a tempo; the 3-entry shapes without rests), ANY "
         "positive values and tempi; float-as-real")

CLASSES["SeqTrack"] = {"class": "mingus.containers.track.Track", "fields": {"bars": "list[any]"}}



def _seq_small():
    import itertools
    out = [[]]
    for n in (1, 2):
        out += [list(c) for c in itertools.product(_EK, repeat=n)]
    return out


def _seq_track_split(shape):
    d = {"field_types": {"track.bars": "[" + ",".join(["SeqBar"] * len(shape)) + "]"}}
    for i, sh in enumerate(shape):
        d["field_types"]["track.bars.%d.bar" % i] = "[" + ",".join(sh) + "]"
    return d


def _seq_track_shapes():
    import itertools
    out = [[]]
    for n in (1, 2):
        out += [list(c) for c in itertools.product(_seq_small(), repeat=n)]
    return out


_TRQ = [("tempo-positive", "bpm > 0 and all([all([e[2] is None or not hasattr(e[2], 'bpm') or e[2].bpm > 0 for e in b.bar]) "
                            "for b in track.bars])"),
        ("values-positive", "all([all([e[1] > 0 for e in b.bar]) for b in track.bars])"),
        ("valid-names", "all([all([e[2] is None or all([is_name(n.name) for n in e[2].notes]) for e in b.bar]) "
                        "for b in track.bars])")]
_c("play_Track",
   params={"self": "Sequencer", "track": "SeqTrack", "channel": "int", "bpm": "int"}, requires=_TRQ,
   returns="dict[bpm:int]",
   ensures=[("returns-the-tempo-in-force-at-the-end", "result['bpm'] == seq_track_final_bpm(track.bars, bpm)")],
   emits="[('notify', 11, {'track': track, 'channel': channel, 'bpm': bpm})] + seq_track_events(track.bars, channel, bpm)",
   callee_events={M + "play_Bar": {"name": "play_Bar", "assume": ["returns-the-tempo-in-force-at-the-end"]}},
   split=[_seq_track_split(sh) for sh in _seq_track_shapes()], split_is_domain=True,
   modifies=[], battery="seq_track",
   notes="domain: tracks of 0..2 bars of 0..2 entries each (rest / container / container with a tempo), ANY positive values "
         "and tempi: the tempo a bar ends with is the tempo the next bar starts with")

# ---------------------------------------------------------------- the listener list itself
CLASSES["Listener"] = {"class": "mingus.midi.sequencer_observer.SequencerObserver", "fields": {}}
CLASSES["BlankSequencer"] = {"class": "mingus.midi.sequencer.Sequencer", "fields": {}}
_c("__init__",
   params={"self": "BlankSequencer"}, returns="None",
   ensures=[("starts-with-no-listeners", "len(self.listeners) == 0"),
            ("in-a-list-of-its-own", "is_fresh(self.listeners)")],
   modifies=["param:self"], battery="seq_blank",
   notes="a listener list that is not allocated by the constructor (class attribute, default argument, module table) "
         "is shared by every sequencer: refuted here")

_LSH = [["Listener"] * k for k in range(0, 4)]
_c("attach",
   params={"self": "Sequencer", "listener": "Listener"}, returns="None",
   old={"old_listeners": "list(self.listeners)"}, old_by_reference=["old_listeners"],
   ensures=[("listener-is-attached-once",
             "len([l for l in self.listeners if same_object(l, listener)]) == 1"),
            ("earlier-listeners-keep-their-places",
             "all([same_object(self.listeners[i], old_listeners[i]) for i in range(len(old_listeners))])"),
            ("at-most-one-more",
             "len(self.listeners) == len(old_listeners) + (0 if any([same_object(l, listener) for l in old_listeners]) else 1)")],
   requires=[("listeners-are-distinct-objects", "all_distinct_objects(self.listeners)")],
   split=[{"field_types": {"self.listeners": "[" + ",".join(sh) + "]"}} for sh in _LSH] +
         [{"field_types": {"self.listeners": "[" + ",".join(sh) + "]"}, "alias": {"listener": "self.listeners.%d" % i}}
          for sh in _LSH for i in range(len(sh))],
   split_is_domain=True, modifies=["param:self"], battery="seq_attach",
   notes="domain: 0..3 listeners attached already; the new one a different object, or any of those attached")
_c("detach",
   params={"self": "Sequencer", "listener": "Listener"}, returns="None",
   old={"old_listeners": "list(self.listeners)"}, old_by_reference=["old_listeners"],
   requires=[("listeners-are-distinct-objects", "all_distinct_objects(self.listeners)")],
   ensures=[("listener-is-gone", "not any([same_object(l, listener) for l in self.listeners])"),
            ("the-others-stay-in-order",
             "list_same_objects(self.listeners, [l for l in old_listeners if not same_object(l, listener)])")],
   split=[{"field_types": {"self.listeners": "[" + ",".join(sh) + "]"}} for sh in _LSH] +
         [{"field_types": {"self.listeners": "[" + ",".join(sh) + "]"}, "alias": {"listener": "self.listeners.%d" % i}}
          for sh in _LSH for i in range(len(sh))],
   split_is_domain=True, modifies=["param:self"], battery="seq_attach")
