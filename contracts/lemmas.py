"""Lemmas stated as tiny client programs over the REAL functions.

Each lemma is an ordinary Python function that calls repository functions; pyvc
verifies it modularly (only the callees' contracts are visible), and the run-time
layer executes it on batteries.  A lemma is thus a property-level statement that
follows from the per-function contracts alone.
"""
from mingus.core import notes

L = "contracts.lemmas."


def c01_roundtrip(i, style):
    return notes.note_to_int(notes.int_to_note(i, style))


def c01_augment_then_diminish(note):
    return notes.diminish(notes.augment(note))


CONTRACTS = {
    L + "c01_roundtrip": dict(
        params={"i": "int", "style": "str"},
        requires="0 <= i and i <= 11 and (style == '#' or style == 'b')",
        returns="int",
        ensures=[("number-to-name-and-back", "result == i")],
        properties=["C01"], battery="int_style",
    ),
    L + "c01_augment_then_diminish": dict(
        params={"note": "str"},
        requires="is_name(note)",
        returns="str",
        ensures=[("same-letter", "result[0] == note[0]"), ("same-net", "net(result) == net(note)"),
                 ("same-pitch-class", "pc(result) == pc(note)")],
        properties=["C01"], battery="names",
    ),
}
