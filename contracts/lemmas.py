"""Lemmas stated as tiny client programs over the REAL functions.

Each lemma is an ordinary Python function that calls repository functions; pyvc
verifies it modularly (only the callees' contracts are visible), and the run-time
layer executes it on batteries.  A lemma is thus a property-level statement that
follows from the per-function contracts alone.
"""
from mingus.core import notes

L = "contracts.lemmas."


def c01_roundtrip(i, style):
    return notes.note_to_int(notes.int_to_note(i, style))


def c01_augment_then_diminish(note):
    return notes.diminish(notes.augment(note))


CONTRACTS = {
    L + "c01_roundtrip": dict(
        params={"i": "int", "style": "str"},
        requires="0 <= i and i <= 11 and (style == '#' or style == 'b')",
        returns="int",
        ensures=[("number-to-name-and-back", "result == i")],
        properties=["C01"], battery="int_style",
    ),
    L + "c01_augment_then_diminish": dict(
        params={"note": "str"},
        requires="is_name(note)",
        returns="str",
        ensures=[("same-letter", "result[0] == note[0]"), ("same-net", "net(result) == net(note)"),
                 ("same-pitch-class", "pc(result) == pc(note)")],
        properties=["C01"], battery="names",
    ),
}


# ------------------------------------------------------------------ C04
from mingus.core import keys  # noqa: E402
from contracts.core_keys import KEYS30  # noqa: E402


def c04_key_facts(key):
    """everything the property says about one key, gathered through the public functions"""
    return (keys.get_notes(key), keys.get_key_signature(key), keys.get_key_signature_accidentals(key))


def c04_signature_roundtrip(n):
    k = keys.get_key(n)
    return (keys.get_key_signature(k[0]), keys.get_key_signature(k[1]))


def c04_key_roundtrip(key):
    return keys.get_key(keys.get_key_signature(key))


def c04_relatives(major):
    minor = keys.relative_minor(major)
    return (minor, keys.relative_major(minor), keys.get_notes(major), keys.get_notes(minor))


_BIND_KEYS = [{"bind": {"key": k}} for k in KEYS30]

CONTRACTS.update({
    L + "c04_key_facts": dict(
        params={"key": "str"}, requires="is_key(key)",
        returns="([str,str,str,str,str,str,str],int,list[str])",
        ensures=[
            ("starts-on-tonic", "result[0][0] == tonic_of(key)"),
            ("every-letter-once-in-order", "consecutive_letters(result[0]) and len(result[0]) == 7"),
            ("step-pattern", "step_pattern(result[0]) == ([2, 1, 2, 2, 1, 2, 2] if key[0] in 'abcdefg' "
                             "else [2, 2, 1, 2, 2, 2, 1])"),
            ("accidentals-are-the-signature", "altered(result[0]) == sorted_list(result[2])"),
            ("count-and-sign", "len(result[2]) == abs(result[1]) and "
                               "all([(a[1] == '#') == (result[1] > 0) for a in result[2]])"),
            ("circle-of-fifths-order", "letters_of(result[2]) == ('FCGDAEB'[:result[1]] if result[1] >= 0 "
                                       "else 'BEADGCF'[:-result[1]])"),
        ],
        split=_BIND_KEYS, properties=["C04"], battery="keys30"),
    L + "c04_signature_roundtrip": dict(
        params={"n": "int"}, requires="-7 <= n and n <= 7", returns="(int,int)",
        ensures=[("signature-of-key-of-n-is-n", "result[0] == n and result[1] == n")],
        split=[{"bind": {"n": i}} for i in range(-7, 8)], properties=["C04"], battery="small_ints"),
    L + "c04_key_roundtrip": dict(
        params={"key": "str"}, requires="is_key(key)", returns="(str,str)",
        ensures=[("key-of-signature-of-key-contains-key", "key == result[0] or key == result[1]")],
        split=_BIND_KEYS, properties=["C04"], battery="keys30"),
    L + "c04_relatives": dict(
        params={"major": "str"}, requires="is_major_key(major)",
        returns="(str,str,[str,str,str,str,str,str,str],[str,str,str,str,str,str,str])",
        ensures=[("inverse", "result[1] == major"),
                 ("same-note-set", "sorted_list(result[2]) == sorted_list(result[3])"),
                 ("minor-tonic-nine-semitones-above", "semis(tonic_of(major), tonic_of(result[0])) == 9")],
        split=[{"bind": {"major": k}} for k in KEYS30[0::2]], properties=["C04"], battery="major15"),
})


# ------------------------------------------------------------------ C03
from mingus.core import intervals  # noqa: E402


def c03_up_then_down(note, sh):
    return intervals.from_shorthand(intervals.from_shorthand(note, sh, True), sh, False)


def c03_name_then_apply(n1, n2):
    return intervals.from_shorthand(n1, intervals.determine(n1, n2, True), True)


_SMALL = "canon({0}) and abs(net({0})) <= 2"

CONTRACTS.update({
    L + "c03_up_then_down": dict(
        params={"note": "str", "sh": "str"},
        requires=[("name-up-to-double-accidentals", _SMALL.format("note")),
                  ("shorthand-up-to-two-accidentals",
                   "is_interval_shorthand(sh) and len(sh) <= 3 and "
                   "(cnt_sharp(sh, 0, len(sh) - 1) == 0 or cnt_flat(sh, 0, len(sh) - 1) == 0)")],
        returns="str",
        ensures=[("returns-the-starting-name", "shape(result, note[0], net(note))")],
        split=[{"assume": "sh[len(sh) - 1] == %r" % d} for d in "1234567"],
        notes="shape(s, L, j) pins a string completely (letter L then |j| equal accidentals); the start note is "
              "canonical, so shape(result, note[0], net(note)) is string equality with note",
        properties=["C03"], battery="canon_name_shorthand"),
    L + "c03_name_then_apply": dict(
        params={"n1": "str", "n2": "str"},
        requires=[("names-up-to-double-accidentals", _SMALL.format("n1") + " and " + _SMALL.format("n2")),
                  ("distance-0-to-11", "0 <= asc_distance(n1, n2) and asc_distance(n1, n2) <= 11")],
        returns="str",
        ensures=[("reproduces-the-second-note", "shape(result, n2[0], net(n2))")],
        split=[{"assume": "n1[0] == %r" % a} for a in "CDEFGAB"],
        properties=["C03"], battery="canon_pairs"),
})


# ------------------------------------------------------------------ C06
from mingus.core import chords  # noqa: E402
from contracts.specfuns import SHORTHAND_STEPS  # noqa: E402


def c06_shorthand_builds_formula(sh, root):
    return chords.chord_shorthand[sh](root)


def c06_tables():
    return (sorted(chords.chord_shorthand.keys()), sorted(chords.chord_shorthand_meaning.keys()))


def c06_same_meaning_same_chord(sh1, sh2, root):
    return (chords.chord_shorthand_meaning[sh1] == chords.chord_shorthand_meaning[sh2],
            chords.chord_shorthand[sh1](root), chords.chord_shorthand[sh2](root))


_SHS = sorted(SHORTHAND_STEPS)
_BY_LEN = {}
for _k in _SHS:
    _BY_LEN.setdefault(len(SHORTHAND_STEPS[_k]), []).append(_k)

CONTRACTS.update({
    L + "c06_shorthand_builds_formula": dict(
        params={"sh": "str", "root": "str"},
        requires="is_name(root) and sh in known_chord_shorthands()",
        returns="list[str]",
        ensures=[("chord-is-its-formula-on-this-root", "chord_matches(result, root, chord_steps(sh))")],
        split=[{"bind": {"sh": k}} for k in _SHS],
        properties=["C06"], battery="shorthand_root"),
    L + "c06_tables": dict(
        params={}, returns="(list[str],list[str])",
        ensures=[("constructible-equals-documented", "list_same(result[0], result[1])"),
                 ("and-equals-the-spec-vocabulary", "list_same(result[0], known_chord_shorthands())")],
        properties=["C06"], battery="unit"),
})

# shorthands with the same documented meaning build the same chord: one lemma instance per pair of keys
_PAIRS = [(a, b) for a in _SHS for b in _SHS if a < b and len(SHORTHAND_STEPS[a]) == len(SHORTHAND_STEPS[b])]
CONTRACTS[L + "c06_same_meaning_same_chord"] = dict(
    params={"sh1": "str", "sh2": "str", "root": "str"},
    requires="is_name(root) and sh1 in known_chord_shorthands() and sh2 in known_chord_shorthands()",
    returns="(bool,list[str],list[str])",
    ensures=[("same-meaning-same-letters-and-pitches",
              "(not result[0]) or (len(result[1]) == len(result[2]) and all([result[1][i][0] == result[2][i][0] and "
              "pc(result[1][i]) == pc(result[2][i]) for i in range(len(result[1]))]))")],
    split=[{"bind": {"sh1": a, "sh2": b}} for a, b in _PAIRS],
    split_is_domain=True,
    notes="the lemma's domain is the enumerated set of key pairs (no completeness obligation); pairs with different chord sizes cannot have the same meaning unless the tables are wrong; those are "
          "covered by c06_shorthand_builds_formula (each key against the spec formula)",
    properties=["C06"], battery="shorthand_pairs_root")


# ------------------------------------------------------------------ C05
from mingus.core import scales  # noqa: E402
from contracts.core_scales import KEY_TONICS_MAJOR, KEY_TONICS_MINOR, PATTERN  # noqa: E402

SCALES = dict((n, getattr(scales, n)) for n in PATTERN)
_ANY = ["Ionian", "Dorian", "Phrygian", "Lydian", "Mixolydian", "Aeolian", "Locrian", "WholeTone", "Octatonic"]
_KEYED = [("Major", KEY_TONICS_MAJOR), ("HarmonicMajor", KEY_TONICS_MAJOR), ("NaturalMinor", KEY_TONICS_MINOR),
          ("HarmonicMinor", KEY_TONICS_MINOR), ("Bachian", KEY_TONICS_MINOR)]


def c05_descending_is_reverse(cls, tonic, n):
    s = SCALES[cls](tonic, n)
    return (s.ascending(), s.descending())


def c05_degrees(cls, tonic, n, k):
    s = SCALES[cls](tonic, n)
    return (s.degree(k), s.ascending(), s.degree(k, "d"), s.descending(), len(s))


_SPLIT_ANY = [{"bind": {"cls": c}} for c in _ANY]
_SPLIT_KEYED = [{"bind": {"cls": c, "tonic": t}} for c, ts in _KEYED for t in ts]
_SPLIT_EXC = [{"bind": {"cls": c, "tonic": t}} for c in ("MelodicMinor", "MinorNeapolitan") for t in KEY_TONICS_MINOR]

CONTRACTS.update({
    L + "c05_descending_is_reverse": dict(
        params={"cls": "str", "tonic": "str", "n": "int"},
        requires="is_name(tonic) and n >= 1",
        returns="(list[str],list[str])",
        ensures=[("descending-is-the-exact-reverse", "list_reverse_of(result[1], result[0])")],
        split=_SPLIT_ANY + _SPLIT_KEYED, split_is_domain=True, skip_callee_clauses=["*"],
        notes="domain: the 14 classes whose descent is the reverse (all but melodic minor, minor Neapolitan, chromatic)",
        properties=["C05"], battery="scale_ctor"),
    L + "c05_degrees": dict(
        params={"cls": "str", "tonic": "str", "n": "int", "k": "int"},
        requires="is_name(tonic) and n >= 1 and 1 <= k and k <= len(SCALE_PATTERN[cls]) * n",
        returns="(str,list[str],str,list[str],int)",
        ensures=[("ascending-degree", "result[0] == result[1][k - 1]"),
                 ("descending-degree", "result[2] == result[3][len(result[3]) - k]"),
                 ("length-follows-the-list", "result[4] == len(result[1]) and result[4] == len(SCALE_PATTERN[cls]) * n + 1")],
        split=_SPLIT_ANY + _SPLIT_KEYED + _SPLIT_EXC, split_is_domain=True, skip_callee_clauses=["*"],
        properties=["C05"], battery="scale_ctor_k"),
})


# ------------------------------------------------------------------ C09
from mingus.core import value as _value  # noqa: E402


def c09_analyse_dotted(base, nr):
    return _value.determine(_value.dots(base, nr))


def c09_analyse_tuplet(base, kind):
    v = _value.triplet(base) if kind == 3 else _value.quintuplet(base) if kind == 5 else _value.septuplet(base)
    return _value.determine(v)


def c09_add_then_subtract(a, b):
    return _value.subtract(_value.add(a, b), b)


_BASES = [0.25, 0.5, 1, 2, 4, 8, 16, 32, 64, 128]
CONTRACTS.update({
    L + "c09_analyse_dotted": dict(
        params={"base": "real", "nr": "int"}, returns="(real,int,int,int)",
        ensures=[("returns-what-it-was-built-from", "result == (base, nr, 1, 1)")],
        split=[{"bind": {"base": b, "nr": n}} for b in _BASES for n in range(5)], split_is_domain=True,
        inline_all=True,
        notes="complete finite case split (10 bases x 0..4 dots), every case evaluated through the engine on the "
              "real function bodies with CPython's own float arithmetic (all values concrete)",
        properties=["C09"], battery="base_dots"),
    L + "c09_analyse_tuplet": dict(
        params={"base": "real", "kind": "int"}, returns="(real,int,int,int)",
        ensures=[("returns-what-it-was-built-from",
                  "result == (base, 0, kind, 2 if kind == 3 else 4)")],
        split=[{"bind": {"base": b, "kind": k}} for b in _BASES for k in (3, 5, 7)], split_is_domain=True,
        inline_all=True, properties=["C09"], battery="base_kind"),
    L + "c09_add_then_subtract": dict(
        params={"a": "real", "b": "real"}, requires="a > 0 and b > 0", returns="real",
        ensures=[("inverse", "feq(result, a)")],
        properties=["C09"], battery="value_pairs_pos"),
})


# ------------------------------------------------------------------ C11
def c11_up_then_down(n, sh):
    n.transpose(sh)
    n.transpose(sh, False)
    return n


CONTRACTS.update({
    L + "c11_up_then_down": dict(
        params={"n": "Note", "sh": "str"},
        requires=[("name-up-to-double-accidentals", "canon(n.name) and abs(net(n.name)) <= 2"),
                  ("shorthand-up-to-two-accidentals",
                   "is_interval_shorthand(sh) and len(sh) <= 3 and "
                   "(cnt_sharp(sh, 0, len(sh) - 1) == 0 or cnt_flat(sh, 0, len(sh) - 1) == 0)"),
                  ("size-0-to-11", "0 <= maj_semis(digit(sh[len(sh) - 1])) + sh_acc(sh) and "
                                   "maj_semis(digit(sh[len(sh) - 1])) + sh_acc(sh) <= 11")],
        returns="Note", old={"old_name": "n.name", "old_octave": "n.octave"},
        ensures=[("name-restored", "shape(n.name, old_name[0], net(old_name))"),
                 ("octave-restored", "n.octave == old_octave")],
        modifies=["param:n"],
        inline_callees=["mingus.containers.note.Note.transpose"],
        notes="Note.transpose is executed in place here (its own contract covers names up to 4 accidentals, the "
              "intermediate note of an up-then-down trip can carry 5)",
        split=[{"assume": "sh[len(sh) - 1] == %r" % d} for d in "1234567"],
        properties=["C11"], battery="note_shorthand"),
})


# ------------------------------------------------------------------ C16 / C17
import io as _io  # noqa: E402
from math import log as _log  # noqa: E402
from mingus.midi.midi_track import MidiTrack as _MidiTrack  # noqa: E402
from mingus.midi import midi_file_in as _mfi  # noqa: E402


def c16_log_assumption(v, b):
    """the assumed contract A_log, checked at run time only"""
    return int(_log(max(v, 1), b))


def c17_tempo_roundtrip(bpm):
    return 60000000 // (60000000 // bpm)


CONTRACTS.update({
    L + "c16_log_assumption": dict(
        params={"v": "int", "b": "int"}, requires="1 <= v and v < 2 ** 28 and (b == 2 or b == 128)", returns="int",
        ensures=[("floor-of-the-logarithm", "b ** result <= v and v < b ** (result + 1)")],
        bounded_only="math.log is a C library call: the contract A_log is validated, not proved (boundary "
                     "neighbourhoods of every power in quick tier, dense sweep in thorough tier)",
        properties=["C16", "C17"], battery="log_domain"),
    L + "c17_tempo_roundtrip": dict(
        params={"bpm": "int"}, requires="4 <= bpm and bpm <= 1000", returns="int",
        ensures=[("tempo-read-back-equals-tempo-written", "result == bpm")],
        split=[{"bind": {"bpm": b}} for b in range(4, 1001)], split_is_domain=True,
        notes="complete finite split over bpm 4..1000 (the statement's own range); integer arithmetic as coded in "
              "set_tempo_event / MIDI_to_Composition",
        properties=["C17"], battery="bpms"),
})


def c17_vlq_reader_inverts_writer(b, n):
    """pure arithmetic lemma tying the two contracts together: what the encoder's postcondition (is_vlq) says about
    the bytes is exactly what the reader's precondition needs, and the reader's value formula gives n back"""
    return None


_RD = []
for _L in (1, 2, 3, 4):
    _cont = " and ".join(["b[%d] >= 128" % i for i in range(_L - 1)] + ["b[%d] < 128" % (_L - 1)])
    _val = " + ".join("(b[%d] %% 128) * %d" % (i, 128 ** (_L - 1 - i)) for i in range(_L))
    _RD.append("(len(b) == %d and %s and %s == n)" % (_L, _cont, _val))
CONTRACTS[L + "c17_vlq_reader_inverts_writer"] = dict(
    params={"b": "bytes", "n": "int"}, requires="0 <= n and n < 2 ** 28 and is_vlq(b, n)", returns="None",
    ensures=[("reader-precondition-and-value", " or ".join(_RD))],
    split=[{"assume": "n < 128"}, {"assume": "128 <= n and n < 16384"},
           {"assume": "16384 <= n and n < 2097152"}, {"assume": "2097152 <= n"}],
    properties=["C17", "C16"], battery=None)


# ------------------------------------------------------------------ C18
from mingus.midi.sequencer import Sequencer as _Sequencer  # noqa: E402
from mingus.midi.sequencer_observer import SequencerObserver as _Observer  # noqa: E402


def c18_every_listener_in_order(seq, l1, l2, msg, params):
    seq.listeners = []
    seq.attach(l1)
    seq.attach(l2)
    seq.attach(l1)          # attaching twice must not duplicate delivery
    seq.notify_listeners(msg, params)
    n = len(seq.listeners)
    seq.detach(l1)
    seq.notify_listeners(msg, params)
    return (n, len(seq.listeners))


CONTRACTS.update({
    L + "c18_every_listener_in_order": dict(
        params={"seq": "Sequencer", "l1": "SequencerObserver", "l2": "SequencerObserver", "msg": "int",
                "params": "dict[channel:int,control:int,value:int]"},
        requires="msg == 2", returns="(int,int)",
        ensures=[("attached-once-each", "result == (2, 1)"),
                 ("same-message-to-every-listener-in-order-then-only-the-remaining-one",
                  "trace_events() == [('observer.cc_event', l1, params['channel'], params['control'], params['value']), "
                  "('observer.cc_event', l2, params['channel'], params['control'], params['value']), "
                  "('observer.cc_event', l2, params['channel'], params['control'], params['value'])]")],
        inline_callees=["mingus.midi.sequencer.Sequencer.notify_listeners", "mingus.midi.sequencer.Sequencer.attach",
                        "mingus.midi.sequencer.Sequencer.detach",
                        "mingus.midi.sequencer_observer.SequencerObserver.notify"],
        modifies=["param:seq"],
        notes="the real attach / detach / notify_listeners / observer.notify bodies are executed here; only the observer "
              "callbacks are abstract trace hooks",
        properties=["C18"], battery=None),
})
