"""Contracts for mingus.core.meter and mingus.core.value (C09)."""

MM = "mingus.core.meter."
MV = "mingus.core.value."
CONTRACTS = {}

for _t, _tag in (("int", "int"), ("real", "float")):
    pass

CONTRACTS[MM + "valid_beat_duration"] = dict(
    params={"duration": "int"},
    returns="bool",
    ensures=[("true-exactly-for-1-2-4-8", "result == is_pow2(duration)")],
    loops={1: dict(inv=[("same-answer-as-the-input", "is_pow2(r) == is_pow2(duration)"),
                        ("never-zero", "r != 0")],
                   decreases="abs(r)")},
    variants=[dict(name="float", params={"duration": "real"},
                   loops={1: dict(inv=[("same-answer-as-the-input", "is_pow2(r) == is_pow2(duration)"),
                                       ("never-zero", "r != 0"),
                                       ("integral-after-the-first-halving", "r == duration or is_integral(r)")],
                                  decreases="int(abs(r))")})],
    properties=["C09"], battery="numbers")

for _nm, _ens in (
        ("is_valid", "result == (meter[0] > 0 and is_pow2(meter[1]))"),
        ("is_simple", "result == (meter[0] > 0 and is_pow2(meter[1]))"),
        ("is_compound", "result == (meter[0] > 0 and is_pow2(meter[1]) and meter[0] % 3 == 0 and meter[0] >= 6)"),
        ("is_asymmetrical", "result == (meter[0] > 0 and is_pow2(meter[1]) and meter[0] % 2 == 1)")):
    CONTRACTS[MM + _nm] = dict(
        params={"meter": "(int,int)"}, returns="bool",
        ensures=[("exact-predicate", _ens)],
        variants=[dict(name="float-unit", params={"meter": "(int,real)"})],
        properties=["C09"], battery="meters")

# ---------------------------------------------------------------- value.py (floats treated as reals: tag float-as-real)
CONTRACTS[MV + "tuplet"] = dict(
    params={"value": "real", "rat1": "int", "rat2": "int"}, requires="rat2 != 0", returns="real",
    ensures=[("ratio-formula", "feq(result * rat2, rat1 * value)")],
    properties=["C09"], battery="value_ratio")
for _nm, _a, _b in (("triplet", 3, 2), ("quintuplet", 5, 4)):
    CONTRACTS[MV + _nm] = dict(
        params={"value": "real"}, returns="real",
        ensures=[("equals-the-general-ratio-formula", "feq(result * %d, %d * value)" % (_b, _a))],
        properties=["C09"], battery="value_one")
CONTRACTS[MV + "septuplet"] = dict(
    params={"value": "real", "in_fourths": "bool"}, returns="real",
    ensures=[("equals-the-general-ratio-formula", "feq(result * (4 if in_fourths else 8), 7 * value)")],
    properties=["C09"], battery="value_flag")
CONTRACTS[MV + "dots"] = dict(
    params={"value": "real", "nr": "int"}, requires="0 <= nr and nr <= 4", returns="real",
    ensures=[("duration-times-two-minus-half-to-the-nr", "feq(result * (2 - 0.5 ** nr), value)")],
    split=[{"bind": {"nr": n}} for n in range(5)],
    properties=["C09"], battery="value_dots")
CONTRACTS[MV + "add"] = dict(
    params={"value1": "real", "value2": "real"}, requires="value1 > 0 and value2 > 0", returns="real",
    ensures=[("sum-of-durations", "result > 0 and feq(1 / result, 1 / value1 + 1 / value2)")],
    properties=["C09"], battery="value_pairs")
CONTRACTS[MV + "subtract"] = dict(
    params={"value1": "real", "value2": "real"}, requires="value1 > 0 and value2 > value1", returns="real",
    ensures=[("difference-of-durations", "result > 0 and feq(1 / result, 1 / value1 - 1 / value2)")],
    properties=["C09"], battery="value_pairs")

BASES = [0.25, 0.5, 1, 2, 4, 8, 16, 32, 64, 128]
# near-miss clause: a value within 1% of an undotted or single-dotted recognised value is analysed as that value
_NEAR = []
for _b in BASES:
    _NEAR.append(dict(when="%r * 0.99 <= value and value <= %r * 1.01" % (_b, _b), returns="(real,int,int,int)",
                      ensures=[("analysed-as-the-base-value", "result[0] == %r and result[1] == 0 and result[2] == 1 "
                                                              "and result[3] == 1" % _b)]))
    _d = _b / 1.5
    _NEAR.append(dict(when="%r * 0.99 <= value and value <= %r * 1.01" % (_d, _d), returns="(real,int,int,int)",
                      ensures=[("analysed-as-the-single-dotted-value", "result[0] == %r and result[1] == 1 and "
                                                                       "result[2] == 1 and result[3] == 1" % _b)]))
# ... the tuplets are undotted recognised values too: within 1% of the triplet, quintuplet or septuplet of a base the
# analysis gives that base itself (the table's number, not one computed back from the value) and that ratio
for _b in BASES:
    for _r0, _r1, _what in ((3, 2, "triplet"), (5, 4, "quintuplet"), (7, 4, "septuplet")):
        _t = _b * _r0 / float(_r1)
        _NEAR.append(dict(when="%r * 0.99 <= value and value <= %r * 1.01" % (_t, _t), returns="(real,int,int,int)",
                          ensures=[("analysed-as-the-%s-of-the-base" % _what,
                                    "result[0] == %r and result[1] == 0 and result[2] == %d and result[3] == %d"
                                    % (_b, _r0, _r1))]))
CONTRACTS[MV + "determine"] = dict(
    params={"value": "real"},
    requires="value > 0 and " + " or ".join("(%s)" % c["when"] for c in _NEAR),
    cases=_NEAR,
    properties=["C09"], battery="value_near")
