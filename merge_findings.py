#!/usr/bin/env python3
"""Dev helper (not part of any check): copies the drivers' PROPOSED_FINDINGS that still reproduce into known_findings.json.
Run by hand under /venv/bin/python with PYTHONPATH=/verif:/repo; the result is committed, never written at run time."""
import importlib, json, os, sys
VERIF = os.path.dirname(os.path.abspath(__file__))
sys.path.insert(0, VERIF)
sys.path.insert(0, "/repo")
from contracts import specfuns
kf_path = os.path.join(VERIF, "known_findings.json")
kf = json.load(open(kf_path))
have = set(k.get("id") for k in kf["findings"])
added, gone = [], []
for fn in sorted(os.listdir(os.path.join(VERIF, "bounded", "drivers"))):
    if not (fn.startswith("C") and fn.endswith(".py")):
        continue
    pid = fn[:-3]
    mod = importlib.import_module("bounded.drivers." + pid)
    for f in getattr(mod, "PROPOSED_FINDINGS", []):
        ns = dict(vars(specfuns))
        try:
            exec(f["witness_code"], ns)
            holds = bool(ns.get("holds"))
            observed = repr(ns.get("observed"))[:200]
        except Exception as e:
            holds, observed = False, "witness raised %r" % (e,)
        if holds:
            gone.append((pid, f["id"]))
            continue
        if f["id"] in have:
            continue
        entry = {"property": f.get("property", pid), "id": f["id"], "function": f.get("function"), "what": f.get("what"),
                 "clause": f.get("clause", "see witness_code"), "witness_code": f["witness_code"]}
        kf["findings"].append(entry)
        have.add(f["id"])
        added.append((pid, f["id"], observed))
json.dump(kf, open(kf_path, "w"), indent=1)
print("added", len(added))
for a in added:
    print("  +", a)
print("no longer reproducing (not added):")
for g in gone:
    print("  -", g)
