#!/usr/bin/env python3
"""Confirm an independently written property-breaking change and run the property's check against it.

usage: seed_eval.py <PID> <n> <dir-with change<n>.diff demo<n>.py notes.md>  ->  /verif/seeded/<PID>-<n>/{patch.diff,demo.py,meta.json}
Works on a scratch copy of /repo (removed afterwards); ./check is pointed at it with VERIF_REPO.
"""
import json, os, shutil, subprocess, sys, tempfile, time

VERIF = os.path.dirname(os.path.abspath(__file__))


def sh(cmd, cwd=None, env=None, timeout=3600):
    p = subprocess.run(cmd, shell=True, cwd=cwd, env=env, capture_output=True, text=True, timeout=timeout)
    return p.returncode, (p.stdout + p.stderr)


def main():
    pid, n, src = sys.argv[1], sys.argv[2], sys.argv[3]
    patch = os.path.join(src, "change%s.diff" % n)
    demo = os.path.join(src, "demo%s.py" % n)
    tmp = tempfile.mkdtemp(prefix="seed-%s-%s-" % (pid, n))
    meta = {"property": pid, "change": int(n), "ran": []}
    try:
        clean = os.path.join(tmp, "clean")
        mut = os.path.join(tmp, "mut")
        for d in (clean, mut):
            os.makedirs(d)
            shutil.copytree("/repo/mingus", os.path.join(d, "mingus"))
            shutil.copytree("/repo/tests", os.path.join(d, "tests"))
        rc, out = sh("patch -p1 < %s" % patch, cwd=mut)
        meta["patch_applies"] = rc == 0
        if rc != 0:
            meta["patch_output"] = out[-800:]
        env = dict(os.environ, PYTHONDONTWRITEBYTECODE="1")
        def run(label, cmd, cwd):
            e = dict(env, PYTHONPATH=cwd)
            t0 = time.time()
            rc, out = sh(cmd, cwd=cwd, env=e)
            meta["ran"].append({"what": label, "cmd": cmd, "exit": rc, "tail": out.strip().split("\n")[-1][:300],
                                "s": round(time.time() - t0, 1)})
            return rc, out
        rc_t, _ = run("unit tests with the change", "/venv/bin/python -m pytest -q -p no:cacheprovider tests/unit", mut)
        rc_dm, out_dm = run("demonstration with the change", "/venv/bin/python %s" % demo, mut)
        rc_dc, _ = run("demonstration without the change", "/venv/bin/python %s" % demo, clean)
        meta["confirmed"] = bool(meta["patch_applies"] and rc_t == 0 and rc_dm != 0 and rc_dc == 0)
        # the property's own check, quick tier, against the changed tree
        e = dict(os.environ, VERIF_REPO=mut, VERIF_SEED="1")
        t0 = time.time()
        rc, out = sh("./check %s --tier quick" % pid, cwd=VERIF, env=e, timeout=3600)
        sh("git checkout evidence/%s.json" % pid, cwd=VERIF)
        viol = [l for l in out.split("\n") if l.startswith("VIOLATION")]
        meta["check"] = {"cmd": "VERIF_REPO=<changed tree> ./check %s --tier quick" % pid, "exit": rc,
                         "violations": [v[:400] for v in viol[:6]], "n_violation_lines": len(viol),
                         "summary": [l for l in out.split("\n") if l.startswith(pid + " tier")][:1],
                         "other": [l[:300] for l in out.split("\n") if l.startswith(("UNDECIDED", "CHECKER-ERROR"))][:4],
                         "s": round(time.time() - t0, 1)}
        meta["caught"] = rc == 1 and bool(viol)
        # what the first replay file says
        if viol:
            try:
                path = viol[0].split("replay=")[1].split()[0]
                with open(path) as f:
                    rp = json.load(f)
                meta["first_replay"] = {k: rp.get(k) for k in ("function", "obligation", "failed_clauses", "clause", "what",
                                                              "inputs", "args", "reproduced_on_real_code", "source") if k in rp}
            except Exception as ex:
                meta["first_replay"] = {"error": repr(ex)}
        notes = os.path.join(src, "notes.md")
        if os.path.exists(notes):
            meta["author_notes"] = open(notes).read()[:6000]
        dst = os.path.join(VERIF, "seeded", "%s-%s" % (pid, n))
        os.makedirs(dst, exist_ok=True)
        # keep the history: what the checks said the first time this change was evaluated
        try:
            prev = json.load(open(os.path.join(dst, "meta.json")))
            meta["history"] = prev.get("history", []) + [{"caught": prev.get("caught"), "exit": prev["check"]["exit"],
                                                           "summary": prev["check"].get("summary")}]
        except Exception:
            pass
        shutil.copy(patch, os.path.join(dst, "patch.diff"))
        shutil.copy(demo, os.path.join(dst, "demo.py"))
        with open(os.path.join(dst, "meta.json"), "w") as f:
            json.dump(meta, f, indent=1, default=str)
        print(pid, n, "confirmed" if meta["confirmed"] else "NOT-CONFIRMED", "CAUGHT" if meta["caught"] else "missed",
              "exit", rc, "%.0fs" % meta["check"]["s"])
    finally:
        shutil.rmtree(tmp, ignore_errors=True)


if __name__ == "__main__":
    main()
