"""Models of the built-ins and native methods the verified functions use.

Every model here is part of the trusted base (listed in the evidence as
`modelled built-in: <name>`) and is compared with CPython by the engine
cross-check.  A form that is not modelled raises Unsupported (-> UNDECIDED),
never a guess.
"""
import ast
import z3

from .values import *  # noqa
from . import ghost


def _used(ex, name):
    ex.ctx.tags.add("builtin:" + name)


def call_builtin(ex, f, args, kwargs, line):
    from .symexec import Raised, PIter, TypeName, zint, zreal, mk_int, mk_bool, mk_real, \
        is_intlike, is_strlike, as_sstr, try_concrete_str, is_numlike
    name = f.t.__name__ if isinstance(f, TypeName) else f.name
    _used(ex, name)
    if name == "super":
        if len(args) == 2 and isinstance(args[0], ClassRef) and isinstance(args[1], Obj):
            return SuperProxy(args[1], args[0].cls)
        raise Unsupported("super() form")
    if name == "len":
        (x,) = args
        if isinstance(x, RepList):
            return mk_int(len(x.head) + len(x.base) * ghost.zmax0(x.count) + len(x.tail))
        if isinstance(x, (str, bytes, tuple)):
            return len(x)
        if isinstance(x, PList):
            return len(x.items)
        if isinstance(x, PDict):
            return len(x.d)
        if isinstance(x, PSet):
            return len(x.items)
        if isinstance(x, SStr):
            return mk_int(x.length)
        if isinstance(x, SList):
            return mk_int(x.length)
        if isinstance(x, range):
            return len(x)
        if isinstance(x, Obj):
            m = ex.find_method(x.cls, "__len__")
            if m is not None:
                return ex.call_function(m, [x], {}, line)
        raise Raised(TypeError, line, implicit=True, note="len of %r" % (x,))
    if name == "range":
        if all(isinstance(a, int) for a in args):
            try:
                return range(*args)
            except (TypeError, ValueError):
                raise Raised(TypeError, line, implicit=True)
        if any(isinstance(a, (float, SReal)) for a in args):
            raise Raised(TypeError, line, implicit=True, note="range of float")
        cargs = []
        for a_ in args:
            if isinstance(a_, int):
                cargs.append(a_)
            else:
                cv = ex.ctx.concretize(zint(a_))
                cargs.append(cv)
        if all(c is not None for c in cargs):
            return range(*cargs)
        if len(args) == 1:
            return RangeVal(0, args[0])
        if len(args) == 2:
            return RangeVal(args[0], args[1])
        raise Unsupported("symbolic range step")
    if name == "abs":
        (x,) = args
        if not is_sym(x):
            return abs(x)
        if isinstance(x, SReal):
            return mk_real(z3.If(x.e >= 0, x.e, -x.e))
        e = zint(x)
        return mk_int(z3.If(e >= 0, e, -e))
    if name in ("min", "max"):
        xs = args if len(args) > 1 else ex.iter_concrete(args[0], line)
        if all(not is_sym(x) for x in xs):
            try:
                return (min if name == "min" else max)(xs)
            except (ValueError, TypeError):
                raise Raised(ValueError, line, implicit=True)
        if any(isinstance(x, (float, SReal)) for x in xs):
            conv, mk = zreal, mk_real
        else:
            conv, mk = zint, mk_int
        r = conv(xs[0])
        for x in xs[1:]:
            e = conv(x)
            r = z3.If(e < r, e, r) if name == "min" else z3.If(e > r, e, r)
        return mk(r)
    if name == "int":
        if not args:
            return 0
        x = args[0]
        if len(args) == 2:
            if isinstance(x, str) and isinstance(args[1], int):
                try:
                    return int(x, args[1])
                except ValueError:
                    raise Raised(ValueError, line, implicit=True)
            raise Unsupported("int(x, base) symbolic")
        if isinstance(x, (bool, int, float)):
            try:
                return int(x)
            except (OverflowError, ValueError):
                raise Raised(ValueError, line, implicit=True)
        if isinstance(x, str):
            try:
                return int(x)
            except ValueError:
                raise Raised(ValueError, line, implicit=True)
        if isinstance(x, (SInt, SBool)):
            return mk_int(zint(x))
        if isinstance(x, SReal):
            # truncation toward zero
            fl = z3.ToInt(x.e)
            return mk_int(z3.If(x.e >= 0, fl, z3.If(z3.ToReal(fl) == x.e, fl, fl + 1)))
        if isinstance(x, SStr):
            return ex.engine.int_of_str(ex, x, line)
        if isinstance(x, Obj):
            m = ex.find_method(x.cls, "__int__")
            if m is not None:
                return ex.call_function(m, [x], {}, line)
        raise Raised(TypeError, line, implicit=True, note="int() of %r" % (x,))
    if name == "float":
        (x,) = args
        if not is_sym(x):
            try:
                return float(x)
            except (ValueError, TypeError):
                raise Raised(ValueError, line, implicit=True)
        ex.ctx.tags.add("float-as-real")
        return mk_real(zreal(x))
    if name == "bool":
        if not args:
            return False
        t = ex.truth(args[0])
        return t if isinstance(t, bool) else mk_bool(t)
    if name == "str":
        if not args:
            return ""
        x = args[0]
        if isinstance(x, (str,)):
            return x
        if isinstance(x, SStr):
            return x
        if isinstance(x, (int, float, bool)) or x is None:
            return str(x)
        if isinstance(x, SInt):
            return ex.engine.str_of_int(ex, x, line)
        if isinstance(x, Obj):
            m = ex.find_method(x.cls, "__str__") or ex.find_method(x.cls, "__repr__")
            if m is not None:
                return ex.call_function(m, [x], {}, line)
        raise Unsupported("str() of %r" % (x,))
    if name == "isinstance":
        x, t = args
        return _isinstance(ex, x, t)
    if name == "hasattr":
        x, n = args
        if isinstance(x, Obj):
            if n in x.fields:
                return True
            return any(n in k.__dict__ for k in x.cls.__mro__)
        if isinstance(x, (str, SStr)):
            return hasattr("", n)
        if isinstance(x, PList):
            return hasattr([], n)
        if isinstance(x, (int, SInt)):
            return hasattr(0, n)
        if x is None:
            return hasattr(None, n)
        if isinstance(x, tuple):
            return hasattr((), n)
        if isinstance(x, PDict):
            return hasattr({}, n)
        raise Unsupported("hasattr on %r" % (x,))
    if name == "list":
        if not args:
            return PList([])
        x = args[0]
        if isinstance(x, RepList):
            return RepList(x.base, x.count, x.tail, head=x.head)  # list(iterator) materialises it
        if isinstance(x, SList):
            return ex.engine.slist_copy(ex, x)
        return PList(ex.iter_concrete(x, line))
    if name == "tuple":
        if not args:
            return ()
        return tuple(ex.iter_concrete(args[0], line))
    if name == "set" or name == "frozenset":
        if not args:
            return PSet([])
        items = ex.iter_concrete(args[0], line)
        out = []
        for it in items:
            r = ex.any_eq(it, out, line)
            if isinstance(r, bool):
                if not r:
                    out.append(it)
            else:
                raise Unsupported("set() of symbolic elements")
        return PSet(out)
    if name == "dict":
        if not args:
            return PDict({})
        x = args[0]
        if isinstance(x, PDict):
            return PDict(x.d)
        raise Unsupported("dict(...)")
    if name == "reversed":
        (x,) = args
        if isinstance(x, RepList):
            r = RepList(list(reversed(x.base)), x.count, list(reversed(x.head)), head=list(reversed(x.tail)))
            r.is_iterator = True
            return r
        return PIter(list(reversed(ex.iter_concrete(x, line))))
    if name == "enumerate":
        items = ex.iter_concrete(args[0], line)
        start = args[1] if len(args) > 1 else kwargs.get("start", 0)
        return PIter([(i + start, x) for i, x in enumerate(items)])
    if name == "zip":
        cols = [ex.iter_concrete(a, line) for a in args]
        return PIter(list(zip(*cols)))
    if name == "sorted":
        items = ex.iter_concrete(args[0], line)
        if all(not is_sym(x) and not isinstance(x, Obj) for x in items) and not kwargs:
            try:
                return PList(sorted(items))
            except TypeError:
                raise Raised(TypeError, line, implicit=True)
        raise Unsupported("sorted() of symbolic elements")
    if name == "sum":
        items = ex.iter_concrete(args[0], line)
        r = args[1] if len(args) > 1 else 0
        for x in items:
            r = ex.binop(ast.Add(), r, x, line)
        return r
    if name == "any" or name == "all":
        items = ex.iter_concrete(args[0], line)
        acc = []
        for x in items:
            t = ex.truth(x)
            if isinstance(t, bool):
                if name == "any" and t:
                    return True
                if name == "all" and not t:
                    return False
            else:
                acc.append(t)
        if not acc:
            return name == "all"
        return mk_bool(z3.Or(acc) if name == "any" else z3.And(acc))
    if name == "print":
        return None
    if name == "round":
        if all(not is_sym(a) for a in args):
            return round(*args)
        if len(args) == 1 and isinstance(args[0], SReal):
            # round half to even, exactly, on the real the float stands for (float-as-real)
            x = args[0].e
            r0 = z3.ToInt(x + z3.RealVal(1) / 2)
            half = z3.ToReal(r0) == x + z3.RealVal(1) / 2
            ex.ctx.tags.add("float-as-real")
            return mk_int(z3.If(z3.And(half, r0 % 2 != 0), r0 - 1, r0))
        if len(args) == 1 and isinstance(args[0], SInt):
            return args[0]
        if len(args) == 2 and isinstance(args[0], SReal) and isinstance(args[1], int) and not isinstance(args[1], bool) \
                and 0 <= args[1] <= 9:
            # round(x, n) = round-half-even(x * 10^n) / 10^n, exactly, on the real the float stands for
            k = 10 ** args[1]
            x = args[0].e * z3.RealVal(k)
            r0 = z3.ToInt(x + z3.RealVal(1) / 2)
            half = z3.ToReal(r0) == x + z3.RealVal(1) / 2
            ex.ctx.tags.add("float-as-real")
            return SReal(z3.ToReal(z3.If(z3.And(half, r0 % 2 != 0), r0 - 1, r0)) / z3.RealVal(k))
        raise Unsupported("round() of symbolic value")
    if name == "chr":
        (x,) = args
        if isinstance(x, int):
            return chr(x)
        return char_sstr(zint(x))
    if name == "ord":
        (x,) = args
        if isinstance(x, str):
            return ord(x)
        s = as_sstr(x)
        return mk_int(s.at(0))
    if name == "iter":
        return PIter(ex.iter_concrete(args[0], line))
    if name in ("islice",):
        items_src = args[0]
        if isinstance(items_src, PIter) and getattr(items_src, "cyclic", None) is not None and \
                all(isinstance(a, int) for a in args[1:]):
            base = items_src.cyclic
            lo, hi = (0, args[1]) if len(args) == 2 else (args[1], args[2])
            return PIter([base[i % len(base)] for i in range(lo, hi)])
        items = ex.iter_concrete(items_src, line)
        import itertools
        return PIter(list(itertools.islice(items, *args[1:])))
    if name == "cycle":
        items = ex.iter_concrete(args[0], line)
        p = PIter([])
        p.cyclic = items
        return p
    if name == "log":
        return ex.engine.math_log(ex, args, line)
    if name in ("a2b_hex", "unhexlify"):
        return ex.engine.a2b_hex(ex, args[0], line)
    if name == "bytes" or name == "bytearray":
        if not args:
            return b""
        x = args[0]
        if isinstance(x, bytes):
            return x
        if isinstance(x, PList):
            if all(isinstance(v, int) for v in x.items):
                try:
                    return bytes(x.items)
                except ValueError:
                    raise Raised(ValueError, line, implicit=True)
            # symbolic byte values: range obligation as a branch (ValueError otherwise)
            arr = z3.K(INT, z3.IntVal(0))
            for i, v in enumerate(x.items):
                e = zint(v)
                if not ex.ctx.branch(z3.And(e >= 0, e <= 255)):
                    raise Raised(ValueError, line, implicit=True)
                arr = z3.Store(arr, i, e)
            return SStr(z3.IntVal(len(x.items)), arr, z3.IntVal(0), is_bytes=True)
        raise Unsupported("bytes(%r)" % (x,))
    if name == "object":
        return Obj(object, {})
    if name in ("pack",):
        return ex.engine.struct_pack(ex, args, line)
    if name == "type":
        (x,) = args
        if isinstance(x, Obj):
            return ClassRef(x.cls)
        if isinstance(x, (str, SStr)):
            return TypeName(str)
        if isinstance(x, bool) or isinstance(x, SBool):
            return TypeName(bool)
        if isinstance(x, (int, SInt)):
            return TypeName(int)
        if isinstance(x, (float, SReal)):
            return TypeName(float)
        if isinstance(x, PList):
            return TypeName(list)
        if isinstance(x, tuple):
            return TypeName(tuple)
        if x is None:
            return TypeName(type(None))
        raise Unsupported("type() of %r" % (x,))
    if name == "deepcopy" or name == "copy":
        return ex.engine.deepcopy(ex, args[0])
    # a real python callable on fully concrete arguments: run it
    if isinstance(f, Builtin) and f.py is not None and all(_plain(a) for a in args) and all(_plain(v) for v in kwargs.values()):
        try:
            return ex.wrap(f.py(*args, **kwargs), None)
        except Exception as e:  # noqa
            raise Raised(type(e), line, implicit=True)
    raise Unsupported("built-in %s with these arguments" % name)


def _plain(a):
    if a is None or isinstance(a, (bool, int, float, str, bytes)):
        return True
    if isinstance(a, tuple):
        return all(_plain(x) for x in a)
    return False


def _isinstance(ex, x, t):
    from .symexec import TypeName
    if isinstance(t, tuple):
        rs = [_isinstance(ex, x, y) for y in t]
        return any(rs)
    if isinstance(t, TypeName):
        tt = t.t
        if tt is object:
            return True
        if tt is str:
            return isinstance(x, str) or (isinstance(x, SStr) and not x.is_bytes)
        if tt is bytes:
            return isinstance(x, bytes) or (isinstance(x, SStr) and x.is_bytes)
        if tt is bool:
            return isinstance(x, (bool, SBool))
        if tt is int:
            return (isinstance(x, (int, SInt, SBool)) and not isinstance(x, float))
        if tt is float:
            return isinstance(x, (float, SReal))
        if tt is list:
            return isinstance(x, (PList, SList))
        if tt is tuple:
            return isinstance(x, tuple)
        if tt is dict:
            return isinstance(x, PDict)
        if tt is set:
            return isinstance(x, PSet)
        if tt is type(None):
            return x is None
        return False
    if isinstance(t, ClassRef):
        if isinstance(x, Obj):
            return issubclass(x.cls, t.cls)
        if isinstance(x, ExcValue):
            return issubclass(x.cls, t.cls)
        return False
    raise Unsupported("isinstance target %r" % (t,))


def native_method(ex, recv, name, args, kwargs, line):
    from .symexec import Raised, PIter, zint, mk_int, mk_bool, as_sstr, try_concrete_str, is_strlike
    _used(ex, "%s.%s" % (type(recv).__name__, name))
    if isinstance(recv, FileObj):
        if name == "read" and len(args) == 1:
            k = zint(args[0])
            d = recv.data
            avail = ghost.zmax0(d.length - recv.pos)
            n = z3.simplify(z3.If(k < avail, ghost.zmax0(k), avail))
            out = SStr(n, d.arr, z3.simplify(d.off + recv.pos), is_bytes=True)
            ex.note_write(recv)
            recv.pos = z3.simplify(recv.pos + n)
            return out
        raise Unsupported("file method %s" % name)
    # ---------------- lists
    if isinstance(recv, PList):
        it = recv.items
        if name == "append":
            ex.note_write(recv, stored=args[0])
            it.append(args[0])
            return None
        if name == "extend":
            ex.note_write(recv)
            it.extend(ex.iter_concrete(args[0], line))
            return None
        if name == "insert":
            ex.note_write(recv)
            if not isinstance(args[0], int):
                raise Unsupported("insert at symbolic index")
            it.insert(args[0], args[1])
            return None
        if name == "pop":
            ex.note_write(recv)
            if not it:
                raise Raised(IndexError, line, implicit=True)
            if args:
                if not isinstance(args[0], int):
                    raise Unsupported("pop at symbolic index")
                try:
                    return it.pop(args[0])
                except IndexError:
                    raise Raised(IndexError, line, implicit=True)
            return it.pop()
        if name == "reverse":
            ex.note_write(recv)
            it.reverse()
            return None
        if name == "copy":
            return PList(it)
        if name == "index":
            for i, e in enumerate(it):
                r = ex.equals(args[0], e, line)
                t = r if isinstance(r, bool) else ex.ctx.branch(r) if not ex.frame.spec else None
                if t is None:
                    raise Unsupported("symbolic list.index in a contract")
                if t:
                    return i
            raise Raised(ValueError, line, implicit=True)
        if name == "count":
            n = 0
            for e in it:
                r = ex.equals(args[0], e, line)
                if isinstance(r, bool):
                    n = n + (1 if r else 0) if isinstance(n, int) else mk_int(zint(n) + (1 if r else 0))
                else:
                    n = mk_int(zint(n) + z3.If(r, 1, 0))
            return n
        if name == "remove":
            ex.note_write(recv)
            for i, e in enumerate(it):
                r = ex.equals(args[0], e, line)
                t = r if isinstance(r, bool) else ex.ctx.branch(r)
                if t:
                    del it[i]
                    return None
            raise Raised(ValueError, line, implicit=True)
        if name == "sort":
            ex.note_write(recv)
            return ex.engine.list_sort(ex, recv, kwargs, line)
        if name == "clear":
            ex.note_write(recv)
            del it[:]
            return None
        raise Unsupported("list.%s" % name)
    if isinstance(recv, SList):
        return ex.engine.slist_method(ex, recv, name, args, kwargs, line)
    # ---------------- dicts
    if isinstance(recv, PDict):
        d = recv.d
        if name == "keys":
            return PList(list(d.keys()))
        if name == "values":
            return PList(list(d.values()))
        if name == "items":
            return PList([(k, v) for k, v in d.items()])
        if name == "get":
            k = args[0]
            dflt = args[1] if len(args) > 1 else None
            if is_sym(k):
                c = try_concrete_str(k) if isinstance(k, SStr) else None
                if c is None:
                    present = ex.contains(recv, k, line)
                    if isinstance(present, bool):
                        return ex.getitem(recv, k, line) if present else dflt
                    if ex.ctx.branch(present):
                        return ex.getitem(recv, k, line)
                    return dflt
                k = c
            return d.get(k, dflt)
        if name == "copy":
            return PDict(d)
        if name == "update":
            ex.note_write(recv)
            o = args[0]
            if isinstance(o, PDict):
                d.update(o.d)
                return None
        if name == "setdefault":
            k = ex.dict_key(args[0])
            if k not in d:
                ex.note_write(recv)
                d[k] = args[1] if len(args) > 1 else None
            return d[k]
        if name == "pop":
            k = ex.dict_key(args[0])
            ex.note_write(recv)
            if k in d:
                return d.pop(k)
            if len(args) > 1:
                return args[1]
            raise Raised(KeyError, line, implicit=True)
        raise Unsupported("dict.%s" % name)
    if isinstance(recv, PSet):
        if name == "add":
            r = ex.any_eq(args[0], recv.items, line)
            if isinstance(r, bool):
                if not r:
                    ex.note_write(recv)
                    recv.items.append(args[0])
                return None
        if name == "issubset":
            other = args[0]
            acc = []
            for x in recv.items:
                acc.append(ex.contains(other, x, line))
            if all(isinstance(a, bool) for a in acc):
                return all(acc)
        raise Unsupported("set.%s" % name)
    # ---------------- strings
    if is_strlike(recv):
        c = try_concrete_str(recv) if isinstance(recv, SStr) else recv
        cargs = [try_concrete_str(a) if isinstance(a, SStr) else a for a in args]
        if name == "join" and c is not None and len(args) == 1 and isinstance(args[0], (PList, PIter, tuple)):
            items = ex.iter_concrete(args[0], line)
            conc = [try_concrete_str(x) if isinstance(x, SStr) else x for x in items]
            if all(isinstance(x, type(c)) for x in conc):
                return c.join(conc)
            if not all(is_strlike(x) for x in items):
                raise Raised(TypeError, line, implicit=True)
            acc = None      # left fold with the concatenation operator (the separator is concrete)
            for x in items:
                if acc is None:
                    acc = x
                else:
                    if len(c):
                        acc = ex.binop(ast.Add(), acc, c, line)
                    acc = ex.binop(ast.Add(), acc, x, line)
            return c if acc is None else acc
        if c is not None and all(not is_sym(a) and a is not None and not isinstance(a, (PList, PDict, Obj))
                                 or isinstance(a, (int, str, bytes)) for a in cargs):
            if name == "format":
                if any(is_sym(v) for v in kwargs.values()):
                    return ex.opaque_str()
            if name == "join":
                items = ex.iter_concrete(args[0], line)
                items = [try_concrete_str(x) if isinstance(x, SStr) else x for x in items]
                if all(isinstance(x, type(c)) for x in items):
                    return c.join(items)
                return ex.engine.str_join(ex, c, ex.iter_concrete(args[0], line), line)
            try:
                r = getattr(c, name)(*cargs, **kwargs)
            except (ValueError, IndexError, KeyError, TypeError) as e:
                raise Raised(type(e), line, implicit=True)
            if isinstance(r, list):
                return PList(r)
            return r
        s = as_sstr(recv)
        return ex.engine.str_method(ex, s, name, args, kwargs, line)
    if isinstance(recv, PIter):
        raise Unsupported("iterator method %s" % name)
    if isinstance(recv, (int, float)):
        if name == "is_integer" and isinstance(recv, float):
            return recv.is_integer()
        raise Unsupported("number method %s" % name)
    if isinstance(recv, SReal) and name == "is_integer":
        return mk_bool(z3.IsInt(recv.e))
    raise Unsupported("method %s of %r" % (name, recv))
