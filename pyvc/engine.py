"""Engine: loads the real sources and the sidecar contracts, generates and discharges VCs."""
import ast
import hashlib
import importlib
import os
import re
import subprocess
import sys
import tempfile
import time
import types
import z3

from .values import *  # noqa
from . import ghost
from .symexec import (Ctx, Exec, Frame, Raised, ReturnSig, PathCut, Infeasible, VC, PIter, TypeName,
                      zint, zreal, mk_int, mk_bool, mk_real, as_sstr, try_concrete_str, is_strlike,
                      is_intlike, str_eq)

REPO = os.environ.get("VERIF_REPO", "/repo")
VERIF = os.path.dirname(os.path.dirname(os.path.abspath(__file__)))


def split_top(s):
    """split a type list at top-level commas"""
    out, depth, cur = [], 0, ""
    for ch in s:
        if ch in "[(":
            depth += 1
        elif ch in "])":
            depth -= 1
        if ch == "," and depth == 0:
            out.append(cur.strip())
            cur = ""
        else:
            cur += ch
    if cur.strip():
        out.append(cur.strip())
    return out


REV = z3.Function("list_rev", ARR, INT, ARR)


def lsel(arr, i):
    """select on list arrays with the reversal function unfolded: rev(a, n)[i] = a[n-1-i] for 0 <= i < n"""
    if z3.is_app(arr) and arr.decl().eq(REV):
        a0, n = arr.children()
        return z3.If(z3.And(i >= 0, i < n), lsel(a0, z3.simplify(n - 1 - i)), z3.Select(arr, i))
    return z3.Select(arr, i)


class GhostPrim(object):
    def __init__(self, name, fn):
        self.name = name
        self.fn = fn


ENTRY_BEAT = z3.Function("entry_beat", z3.IntSort(), z3.RealSort())
ENTRY_VALUE = z3.Function("entry_value", z3.IntSort(), z3.RealSort())
ENTRY_CONTENT = z3.Function("entry_content", z3.IntSort(), z3.IntSort())


class Engine(object):
    def __init__(self, timeout_ms=10000, feas_timeout_ms=1500):
        sys.dont_write_bytecode = True
        if REPO not in sys.path:
            sys.path.insert(0, REPO)
        if VERIF not in sys.path:
            sys.path.insert(0, VERIF)
        self.timeout_ms = timeout_ms
        self.feas_timeout_ms = feas_timeout_ms
        self.max_unroll = 400
        self.max_paths = 4000
        self.inline_closures = True
        self.contracts = {}
        self.classes = {}
        self.inline = set()
        self.lemmas = {}
        self.stats = {"feas_checks": 0}
        self._mods = {}
        self._asts = {}
        self._funcs = {}
        self._exprs = {}
        self._frefs = {}
        self.spec_modules = set(["contracts.specfuns"])
        try:
            import json as _json
            with open(os.path.join(VERIF, "contracts", "loop_headers.json")) as f:
                self.loop_headers = _json.load(f)
        except (IOError, ValueError):
            self.loop_headers = {}
        self.prims = {}
        self._install_prims()
        self.load_contracts()

    # ------------------------------------------------------------ loading
    def load_contracts(self):
        cdir = os.path.join(VERIF, "contracts")
        for fn in sorted(os.listdir(cdir)):
            if not fn.endswith(".py") or fn in ("__init__.py", "specfuns.py", "dsl.py"):
                continue
            mod = importlib.import_module("contracts." + fn[:-3])
            for k, v in getattr(mod, "CONTRACTS", {}).items():
                if k in self.contracts:
                    raise RuntimeError("duplicate contract " + k)
                v = dict(v)
                v["file"] = fn
                self.contracts[k] = v
                for var in v.get("variants") or []:
                    w = dict(v)
                    w.pop("variants")
                    w.update(var)
                    w["variant_of"] = k
                    self.contracts[k + "#" + var["name"]] = w
            self.classes.update(getattr(mod, "CLASSES", {}))
            self.inline |= set(getattr(mod, "INLINE", ()))
            self.lemmas.update(getattr(mod, "LEMMAS", {}))
        if self.timeout_ms >= 60000:
            # thorough tier: contracts may name a larger finite domain (more notes, entries, bars) for their case split
            for k, v in self.contracts.items():
                if v.get("split_thorough"):
                    v["split"] = v["split_thorough"]
                if v.get("cases_thorough"):
                    v["cases"] = v["cases_thorough"]
                if v.get("requires_thorough"):
                    v["requires"] = v["requires_thorough"]

    def callee_ready(self, fq):
        """may this contract be ASSUMED at a call site?  Not if a postcondition speaks about a field of a mutable
        parameter that the contract does not declare as changed (havoc): assuming it would contradict the pre-state"""
        cache = self.__dict__.setdefault("_callee_ready", {})
        if fq not in cache:
            ok = True
            for k, c in self.contracts.items():
                if k.split("#")[0] != fq:
                    continue
                if c.get("trace") or not (c.get("modifies") or []):
                    continue
                if "havoc" not in c and any(str(m).startswith("param:self") for m in c.get("modifies") or []) and \
                        not c.get("emits") and not any(cs.get("emits") for cs in (c.get("cases") or [])):
                    ok = False      # it changes something and never says WHAT may change: nothing can be assumed after it
                    continue
                ens = list(self.norm_named(c.get("ensures"), "post"))
                for cs in c.get("cases") or []:
                    ens += self.norm_named(cs.get("ensures"), "post")
                hav = set((c.get("havoc") or {}).keys())
                fields = set()
                for nm, ex in ens:
                    for m in re.finditer(r"\b(self|fp)\.(\w+)", ex):
                        fields.add(m.group(1) + "." + m.group(2))
                if any(f not in hav and f != "fp.data" for f in fields):
                    ok = False
            cache[fq] = ok
        return cache[fq]

    def rebound_globals(self, modname):
        """names a function of the module rebinds through a `global` statement"""
        cache = self.__dict__.setdefault("_rebound", {})
        if modname not in cache:
            names = set()
            try:
                tree = self.module_ast(modname)[0]
                for fn in ast.walk(tree):
                    if isinstance(fn, (ast.FunctionDef, ast.AsyncFunctionDef)):
                        decl = set()
                        for n in ast.walk(fn):
                            if isinstance(n, ast.Global):
                                decl.update(n.names)
                        for n in ast.walk(fn):
                            if isinstance(n, (ast.Assign, ast.AugAssign, ast.AnnAssign)):
                                for t in (n.targets if isinstance(n, ast.Assign) else [n.target]):
                                    for x in ast.walk(t):
                                        if isinstance(x, ast.Name) and x.id in decl:
                                            names.add(x.id)
            except Exception:  # noqa
                pass
            cache[modname] = names
        return cache[modname]

    def module(self, name):
        if name not in self._mods:
            self._mods[name] = importlib.import_module(name)
        return self._mods[name]

    def module_ast(self, name):
        if name not in self._asts:
            mod = self.module(name)
            path = mod.__file__
            with open(path) as f:
                src = f.read()
            self._asts[name] = (ast.parse(src, path), src, path)
        return self._asts[name]

    def find_node(self, module, qualname, lineno=None):
        key = (module, qualname, lineno if "<lambda>" in qualname else None)
        if key in self._funcs:
            return self._funcs[key]
        tree, src, path = self.module_ast(module)
        node = None
        if qualname.endswith("<lambda>"):
            for n in ast.walk(tree):
                if isinstance(n, ast.Lambda) and n.lineno == lineno:
                    node = n
                    break
        else:
            cur = tree
            ok = True
            for part in qualname.split("."):
                if part == "<locals>":
                    continue
                found = None
                for n in ast.iter_child_nodes(cur) if not isinstance(cur, (ast.FunctionDef,)) else _walk_defs(cur):
                    if isinstance(n, (ast.FunctionDef, ast.ClassDef)) and n.name == part:
                        found = n
                if found is None:
                    ok = False
                    break
                cur = found
            node = cur if ok else None
        self._funcs[key] = node
        return node

    def funcref_of(self, pyfunc):
        key = id(pyfunc)
        if key in self._frefs:
            return self._frefs[key][0]
        module = pyfunc.__module__
        q = pyfunc.__qualname__
        node = None
        try:
            node = self.find_node(module, q, pyfunc.__code__.co_firstlineno)
        except Exception:
            node = None
        fr = FuncRef(module, q, node, closure=None, pyfunc=pyfunc)
        self._frefs[key] = (fr, pyfunc)
        return fr

    def funcref_by_name(self, fq):
        """'pkg.mod.Class.method' or 'pkg.mod.func' or '...outer.<locals>.inner' -> FuncRef."""
        fq = fq.split("#")[0]
        parts = fq.split(".")
        for i in range(len(parts) - 1, 0, -1):
            modname = ".".join(parts[:i])
            try:
                self.module(modname)
            except ImportError:
                continue
            q = ".".join(parts[i:])
            node = self.find_node(modname, q)
            if node is None:
                raise KeyError("function not found in source: " + fq)
            return FuncRef(modname, q, node)
        raise KeyError(fq)

    def source_hash(self, fref):
        tree, src, path = self.module_ast(fref.module)
        seg = ast.get_source_segment(src, fref.node) or ""
        return hashlib.sha1(seg.encode()).hexdigest()[:12]

    def parse_expr(self, s):
        if s not in self._exprs:
            self._exprs[s] = ast.parse(s.strip(), mode="eval").body
        return self._exprs[s]

    # ------------------------------------------------------------ spec names
    def spec_lookup(self, name):
        if name in self.prims:
            return self.prims[name]
        sm = self.module("contracts.specfuns")
        if hasattr(sm, name):
            v = getattr(sm, name)
            if isinstance(v, types.FunctionType):
                if getattr(v, "__primitive__", False):
                    p = GhostPrim(name, self._concrete_prim(name, v))
                    self.prims[name] = p
                    return p
                return self.funcref_of(v)
            if isinstance(v, (int, str, tuple, float, bool)):
                return v
            if isinstance(v, (dict, list)):
                return from_py(v)
            return None
        return None

    def _concrete_prim(self, name, pyf):
        """A @primitive spec function without solver meaning: CPython evaluates it on concrete arguments."""
        def f(ex, *args):
            cargs = [to_py(a) for a in args]
            return from_py(pyf(*cargs))
        return f

    def _install_prims(self):
        def cnt(kind):
            def f(ex, s, lo, hi):
                if isinstance(s, str):
                    if isinstance(lo, int) and isinstance(hi, int):
                        seg = s[max(lo, 0):max(hi, 0)] if hi > lo else ""
                        if kind == "sharp":
                            return seg.count("#")
                        if kind == "flat":
                            return seg.count("b")
                        return len(seg) - seg.count("#") - seg.count("b")
                s = as_sstr(s)
                return mk_int(ex.ctx.reg.cnt(kind, s.arr, s.off + zint(lo), s.off + zint(hi)))
            return f
        for k in ghost.KINDS:
            self.prims["cnt_" + k] = GhostPrim("cnt_" + k, cnt(k))

        def implies(ex, a, b):
            ta, tb = ex.truth(a), ex.truth(b)
            if isinstance(ta, bool):
                return tb if ta else True
            if isinstance(tb, bool):
                return True if tb else mk_bool(z3.Not(ta))
            return mk_bool(z3.Implies(ta, tb))
        self.prims["implies"] = GhostPrim("implies", implies)

        def is_pow2(ex, v):
            """v is one of 1, 2, 4, 8, ... (ints; reals must be integer-valued)"""
            if isinstance(v, bool):
                return v is True
            if isinstance(v, int):
                return v >= 1 and (v & (v - 1)) == 0
            if isinstance(v, float):
                return v == v and v not in (float("inf"), float("-inf")) and v >= 1 and v == int(v) and \
                    (int(v) & (int(v) - 1)) == 0
            if isinstance(v, SReal):
                return mk_bool(z3.And(z3.IsInt(v.e), ex.ctx.reg.pow2(z3.ToInt(v.e))))
            return mk_bool(ex.ctx.reg.pow2(zint(v)))
        self.prims["is_pow2"] = GhostPrim("is_pow2", is_pow2)

        def is_ascii(ex, s):
            """every character of the text is below 128"""
            if isinstance(s, str):
                return all(ord(c) < 128 for c in s)
            return mk_bool(self.all_ascii(as_sstr(s)))
        self.prims["is_ascii"] = GhostPrim("is_ascii", is_ascii)

        def ascii_bytes(ex, s):
            """the bytes an ASCII text encodes to: the same code points, as bytes"""
            if isinstance(s, str):
                return from_py(s.encode("ascii"))
            s = as_sstr(s)
            return SStr(s.length, s.arr, s.off, is_bytes=True, maxlen=s.maxlen)
        self.prims["ascii_bytes"] = GhostPrim("ascii_bytes", ascii_bytes)

        def is_integral(ex, v):
            if isinstance(v, (int, SInt, SBool)):
                return True
            if isinstance(v, float):
                return v == v and v not in (float("inf"), float("-inf")) and v == int(v)
            if isinstance(v, SReal):
                return mk_bool(z3.IsInt(v.e))
            return False
        self.prims["is_integral"] = GhostPrim("is_integral", is_integral)

        def feq(ex, a, b):
            r = ex.equals(a, b, None)
            return r if isinstance(r, bool) else mk_bool(r)
        self.prims["feq"] = GhostPrim("feq", feq)

        def trace_events(ex):
            return PList(list(ex.ctx.__dict__.get("trace", [])))
        self.prims["trace_events"] = GhostPrim("trace_events", trace_events)

        def open_string(ex, t):
            """a string of a tuning: the Note itself, or the first Note of a course"""
            return t.items[0] if isinstance(t, PList) else t
        self.prims["open_string"] = GhostPrim("open_string", open_string)

        def is_fresh(ex, v):
            """v (and every list inside it) was allocated during this call: not a module-level object, not an argument"""
            def fresh(x):
                if isinstance(x, (PList, PDict, PSet, SList, RepList)):
                    if getattr(x, "origin", None) is not None:
                        return False
                    items = x.items if isinstance(x, (PList, PSet)) else list(x.d.values()) if isinstance(x, PDict) else []
                    return all(fresh(y) for y in items)
                if isinstance(x, tuple):
                    return all(fresh(y) for y in x)
                if isinstance(x, Obj):
                    return getattr(x, "origin", None) is None
                return True
            return fresh(v)
        self.prims["is_fresh"] = GhostPrim("is_fresh", is_fresh)

        def all_distinct_objects(ex, xs):
            items = xs.items if isinstance(xs, PList) else list(xs)
            return len(set(id(x) for x in items)) == len(items)
        self.prims["all_distinct_objects"] = GhostPrim("all_distinct_objects", all_distinct_objects)

        def list_same_objects(ex, a, b):
            xa = a.items if isinstance(a, PList) else list(a)
            xb = b.items if isinstance(b, PList) else list(b)
            return len(xa) == len(xb) and all(x is y for x, y in zip(xa, xb))
        self.prims["list_same_objects"] = GhostPrim("list_same_objects", list_same_objects)

        def module_value(ex, path):
            """the module-level object at a dotted path, in the state the path has reached (representation
            invariants of memo tables are stated over it)"""
            modname, _, attr = path.rpartition(".")
            return ex.wrap(getattr(self.module(modname), attr), "module:" + path)
        self.prims["module_value"] = GhostPrim("module_value", module_value)

        def all_valid_names(ex, t):
            """every Note of a string / course has a valid name"""
            notes = t.items if isinstance(t, PList) else [t]
            acc = [ex.truth(ex.run_spec_function(self.spec_lookup("is_name"), {"s": n.fields["name"]})) for n in notes]
            acc = [z3.BoolVal(a) if isinstance(a, bool) else a for a in acc]
            return mk_bool(z3.And(acc))
        self.prims["all_valid_names"] = GhostPrim("all_valid_names", all_valid_names)

        def isstr(ex, v):
            return is_strlike(v)
        self.prims["is_str"] = GhostPrim("is_str", isstr)

        def isfalse(ex, v):
            return v is False
        self.prims["is_False"] = GhostPrim("is_False", isfalse)

        def isnone(ex, v):
            return v is None
        self.prims["is_None"] = GhostPrim("is_None", isnone)

        def isint(ex, v):
            return is_intlike(v) and not isinstance(v, (bool, SBool))
        self.prims["is_int"] = GhostPrim("is_int", isint)

        def same_object(ex, a, b):
            return a is b
        self.prims["same_object"] = GhostPrim("same_object", same_object)

        def is_periodic(ex, l, p, n):
            """l == l[:p] * n + [l[0]]  (n >= 1)"""
            if isinstance(l, RepList):
                if len(l.base) != p or l.head or len(l.tail) != 1:
                    return False
                return mk_bool(z3.And(l.count == zint(n), z3.BoolVal(l.tail[0] is l.base[0])))
            if isinstance(l, PList):
                nv = concrete_int(zint(n))
                acc = []
                if nv is None:
                    if (len(l.items) - 1) % p != 0 or len(l.items) < p + 1:
                        return False
                    nv = (len(l.items) - 1) // p
                    acc.append(zint(n) == nv)
                if len(l.items) != p * nv + 1 or nv < 1:
                    return False
                for i, x in enumerate(l.items):
                    r = ex.equals(x, l.items[i % p], None) if i >= p else True
                    if isinstance(r, bool):
                        if not r:
                            return False
                    else:
                        acc.append(r)
                return mk_bool(z3.And(acc)) if acc else True
            raise Unsupported("is_periodic of %r" % (l,))
        self.prims["is_periodic"] = GhostPrim("is_periodic", is_periodic)

        def list_reverse_of(ex, a, b):
            """a is b reversed (goal position only: the universally quantified index is skolemised)"""
            if isinstance(a, PList) and isinstance(b, PList):
                r = ex.equals(a, PList(list(reversed(b.items))), None)
                return r if isinstance(r, bool) else mk_bool(r)
            if isinstance(a, RepList) and isinstance(b, RepList):
                if len(a.head) != len(b.tail) or len(a.base) != len(b.base) or len(a.tail) != len(b.head):
                    return False
                parts = [a.count == b.count]
                for x, y in list(zip(a.head, reversed(b.tail))) + list(zip(a.base, reversed(b.base))) + \
                        list(zip(a.tail, reversed(b.head))):
                    r = ex.equals(x, y, None)
                    parts.append(z3.BoolVal(r) if isinstance(r, bool) else r)
                return mk_bool(z3.And(parts))
            if isinstance(a, (RepList, PList)) and isinstance(b, (RepList, PList)):
                return False
            if not ex.ctx.goal_mode:
                raise Unsupported("list_reverse_of outside a goal")
            i = ex.ctx.fresh("sk_i")
            return mk_bool(z3.And(a.length == b.length,
                                  z3.Implies(z3.And(i >= 0, i < a.length),
                                             lsel(a.arr, i) == lsel(b.arr, b.length - 1 - i))))
        self.prims["list_reverse_of"] = GhostPrim("list_reverse_of", list_reverse_of)

        def list_same(ex, a, b):
            if isinstance(a, (PList, tuple)) and isinstance(b, (PList, tuple)):
                r = ex.equals(PList(list(a.items if isinstance(a, PList) else a)),
                              PList(list(b.items if isinstance(b, PList) else b)), None)
                return r if isinstance(r, bool) else mk_bool(r)
            if not ex.ctx.goal_mode:
                raise Unsupported("list_same outside a goal")
            i = ex.ctx.fresh("sk_j")
            return mk_bool(z3.And(a.length == b.length,
                                  z3.Implies(z3.And(i >= 0, i < a.length), lsel(a.arr, i) == lsel(b.arr, i))))
        self.prims["list_same"] = GhostPrim("list_same", list_same)

        def list_prefix_same(ex, a, b, n):
            """the first n elements of a are the first n elements of b (goal position: skolemised index)"""
            if isinstance(a, (PList, tuple)) and isinstance(b, (PList, tuple)):
                xa = a.items if isinstance(a, PList) else list(a)
                xb = b.items if isinstance(b, PList) else list(b)
                nv = concrete_int(zint(n))
                if nv is None:
                    raise Unsupported("list_prefix_same with symbolic n on concrete lists")
                r = ex.equals(PList(xa[:nv]), PList(xb[:nv]), None)
                return r if isinstance(r, bool) else mk_bool(r)
            if not ex.ctx.goal_mode:
                raise Unsupported("list_prefix_same outside a goal")
            i = ex.ctx.fresh("sk_p")
            return mk_bool(z3.And(a.length >= zint(n), b.length >= zint(n),
                                  z3.Implies(z3.And(i >= 0, i < zint(n)), lsel(a.arr, i) == lsel(b.arr, i))))
        self.prims["list_prefix_same"] = GhostPrim("list_prefix_same", list_prefix_same)

        def is_list(ex, v):
            return isinstance(v, (PList, SList))
        self.prims["is_list"] = GhostPrim("is_list", is_list)

    # ------------------------------------------------------------ types
    def fresh_of_type(self, ex, t, name, env=None):
        ctx = ex.ctx
        if isinstance(t, str) and t.strip().startswith("="):
            if env is None:
                raise Unsupported("'=expr' type element without an environment")
            return ex.spec_eval(t.strip()[1:], env)
        if isinstance(t, (list, tuple)) and not isinstance(t, str):
            return PList([self.fresh_of_type(ex, x, "%s[%d]" % (name, i)) for i, x in enumerate(t)],
                         origin=None)
        t = t.strip()
        if t == "int":
            return SInt(ctx.fresh(name))
        if t == "nat":
            e = ctx.fresh(name)
            ctx.assume(e >= 0)
            return SInt(e)
        if t == "bool":
            return SBool(ctx.fresh(name, BOOL))
        if t == "real" or t == "float":
            ctx.tags.add("float-as-real")
            return SReal(ctx.fresh(name, REAL))
        if t == "str":
            return ctx.fresh_str(name)
        if t == "bytes":
            s = ctx.fresh_str(name, is_bytes=True)
            return s
        if t.startswith("bytes[") and t.endswith("]"):
            n = int(t[6:-1])
            return SStr(z3.IntVal(n), ctx.fresh(name + ".arr", ARR), z3.IntVal(0), is_bytes=True)
        if t == "char":
            return char_sstr(ctx.fresh(name))
        if t in ("None", "none"):
            return None
        if t == "False":
            return False
        if t == "True":
            return True
        if t.startswith("[") and t.endswith("]"):
            inner = split_top(t[1:-1])
            return PList([self.fresh_of_type(ex, x, "%s[%d]" % (name, i), env) for i, x in enumerate(inner)])
        if t.startswith("(") and t.endswith(")"):
            inner = split_top(t[1:-1])
            return tuple(self.fresh_of_type(ex, x, "%s[%d]" % (name, i), env) for i, x in enumerate(inner))
        if t.startswith("list[") and t.endswith("]"):
            return self.fresh_slist(ex, t[5:-1], name)
        if t == "emptydict":
            return PDict({})
        if t == "any":
            return SInt(ctx.fresh(name + ".opaque"))
        if t.startswith("dict[") and t.endswith("]"):
            d = {}
            for part in split_top(t[5:-1]):
                k, _, vt = part.partition(":")
                d[k.strip()] = self.fresh_of_type(ex, vt.strip(), "%s[%s]" % (name, k.strip()), env)
            return PDict(d)
        if t == "file":
            data = ctx.fresh_str(name + ".data", is_bytes=True)
            pos = ctx.fresh(name + ".pos")
            ctx.assume(z3.And(pos >= 0, pos <= data.length))
            return FileObj(data, pos, origin="param:" + name)
        if t == "intset":
            ctx.nfresh += 1
            return SIntSet(ctx.nfresh)
        if t.startswith("periodic[") and t.endswith("]"):
            parts = split_top(t[9:-1])
            p_s, cnt_s = parts[0], parts[1]
            p_n = int(p_s)
            cnt = ex.spec_eval(cnt_s, env)
            base = [ctx.fresh_str("%s[%d]" % (name, i)) for i in range(p_n)]
            if len(parts) > 2 and parts[2].startswith("="):
                base[0] = ex.spec_eval(parts[2][1:], env)
            cv = concrete_int(zint(cnt))
            if cv is not None:
                return PList(base * max(cv, 0) + [base[0]])
            return RepList(base, zint(cnt), [base[0]])
        if t in self.classes:
            return self.fresh_object(ex, t, name)
        raise Unsupported("unknown type %r for %s" % (t, name))

    def fresh_object(self, ex, cname, name):
        schema = self.classes[cname]
        modname, _, cls = schema["class"].rpartition(".")
        klass = getattr(self.module(modname), cls)
        o = Obj(klass, {}, origin="param:" + name)
        for fname, ftype in schema.get("fields", {}).items():
            o.fields[fname] = self.fresh_of_type(ex, ftype, "%s.%s" % (name, fname))
            # whatever the pre-state object holds belongs to the pre-state: it is not fresh, and writing to it is a
            # write to (a part of) the parameter
            taint(o.fields[fname], "param:%s.%s" % (name, fname))
        inv = schema.get("inv")
        if inv:
            ex.ctx.assume(ex.spec_bool(inv, {"self": o}))
        return o

    def fresh_slist(self, ex, kind, name):
        """list of unknown length; elements are opaque ids (kind 'any') or ints (kind 'int')"""
        if kind not in ("any", "int", "entry"):
            raise Unsupported("symbolic-length list of %s (%s)" % (kind, name))
        n = ex.ctx.fresh(name + ".len")
        ex.ctx.assume(n >= 0)
        return SList(n, ex.ctx.fresh(name + ".arr", ARR), kind, origin=None)

    def slist_elem(self, ex, l, pos):
        pos = pos if z3.is_expr(pos) else z3.IntVal(pos)
        table = ex.ctx.__dict__.get("slist_table", {})
        if table and z3.is_app_of(pos, z3.Z3_OP_ITE):
            # the negative-index normalisation of a spec expression: settle it from the path condition
            if not ex.ctx.feasible(pos.arg(0)):
                pos = pos.arg(2)
            elif not ex.ctx.feasible(z3.Not(pos.arg(0))):
                pos = pos.arg(1)
        e = z3.simplify(lsel(l.arr, z3.simplify(pos)))
        if e.get_id() in table:
            return table[e.get_id()]        # an element appended during this call: its structure is known
        if l.kind == "entry":
            # an entry the call did not write: a record [start beat, value, content] whose two numbers are functions
            # of the element's identity (the same entry read twice gives the same numbers); the content is opaque
            return PList([mk_real(ENTRY_BEAT(e)), mk_real(ENTRY_VALUE(e)), SInt(ENTRY_CONTENT(e))])
        return mk_int(e)

    def slist_slice(self, ex, l, lo, hi):
        """l[lo:hi] for concrete-signed symbolic bounds: a view (same element array, other offset / length)"""
        n = l.length
        def norm(v, dflt):
            if v is None:
                return dflt
            v = v if z3.is_expr(v) else z3.IntVal(v)
            v = z3.If(v < 0, v + n, v)
            return z3.If(v < 0, 0, z3.If(v > n, n, v))
        a, b = norm(zint(lo) if lo is not None else None, z3.IntVal(0)), norm(zint(hi) if hi is not None else None, n)
        ln = z3.simplify(z3.If(b > a, b - a, 0))
        i = z3.Int("q_sl_i")
        arr = l.arr if z3.is_int_value(z3.simplify(a)) and z3.simplify(a).as_long() == 0 else \
            z3.Lambda([i], z3.Select(l.arr, i + a))
        return SList(ln, arr, l.kind)

    def slist_copy(self, ex, l):
        return SList(l.length, l.arr, l.kind)

    def slist_method(self, ex, l, name, args, kwargs, line):
        if name == "reverse" and not args:
            ex.note_write(l)
            l.arr = REV(l.arr, l.length)
            return None
        if name == "copy":
            return SList(l.length, l.arr, l.kind)
        if name == "append" and len(args) == 1:
            ex.note_write(l, stored=args[0])
            ident = ex.ctx.fresh("elem")
            ex.ctx.__dict__.setdefault("slist_table", {})[ident.get_id()] = args[0]
            if l.kind == "entry" and isinstance(args[0], PList) and len(args[0].items) == 3 and \
                    all(isinstance(x, (int, float, SInt, SReal)) and not isinstance(x, bool) for x in args[0].items[:2]):
                ex.ctx.assume(ENTRY_BEAT(ident) == zreal(args[0].items[0]))
                ex.ctx.assume(ENTRY_VALUE(ident) == zreal(args[0].items[1]))
            l.arr = z3.Store(l.arr, l.length, ident)
            l.length = z3.simplify(l.length + 1)
            return None
        raise Unsupported("method %s on a list of unknown length" % name)

    # stubs for models not built yet ------------------------------------------------
    def _unsup(what):
        def f(self, *a, **k):
            raise Unsupported(what)
        return f
    list_repeat = _unsup("list repetition with symbolic count")
    def list_sort(self, ex, lst, kwargs, line):
        """list.sort(): stable insertion sort driven by the elements' own < (forks on symbolic comparisons);
        CPython's sort is stable and only uses <, so the resulting order is the same"""
        if kwargs:
            raise Unsupported("list.sort with key/reverse")
        items = lst.items
        if len(items) > 4:
            raise Unsupported("list.sort of more than 4 symbolic elements")
        out = []
        for x in items:
            pos = len(out)
            while pos > 0:
                r = ex.compare(ast.Lt(), x, out[pos - 1], line)
                t = r if isinstance(r, bool) else ex.ctx.branch(r)
                if not t:
                    break
                pos -= 1
            out.insert(pos, x)
        lst.items = out
        ex.ctx.tags.add("builtin:list.sort (stable insertion by the elements' <)")
        return None
    int_of_str = _unsup("int() of a symbolic string")
    str_of_int = _unsup("str() of a symbolic int")
    def math_log(self, ex, args, line):
        """math.log(x, b) is NOT modelled: assumed contract A_log, validated by the run-time battery 'log_assumption':
        for b in {2, 128} and 1 <= x < 2**28:  b**k <= x < b**(k+1)  ==>  k <= log(x, b) < k + 1"""
        if all(isinstance(a, (int, float)) for a in args):
            import math
            try:
                return math.log(*args)
            except (ValueError, ZeroDivisionError):
                raise Raised(ValueError, line, implicit=True)
        if len(args) != 2 or not isinstance(args[1], int) or args[1] not in (2, 128):
            raise Unsupported("math.log form")
        b = args[1]
        x = zint(args[0])
        if not ex.ctx.branch(z3.And(x >= 1, x < 2 ** 28)):
            raise Unsupported("math.log outside the domain of the assumed contract (1 <= x < 2**28)")
        r = ex.ctx.fresh("log", REAL)
        k = 0
        while b ** k < 2 ** 28:
            ex.ctx.assume(z3.Implies(z3.And(x >= b ** k, x < b ** (k + 1)), z3.And(r >= k, r < k + 1)))
            k += 1
        ex.ctx.tags.add("assumed contract A_log: floor(math.log(x, %d)) is the exact integer logarithm for 1 <= x < 2**28 "
                        "(validated at run time by battery log_assumption, never proved)" % b)
        return SReal(r)

    def a2b_hex(self, ex, v, line):
        if isinstance(v, (str, bytes)):
            import binascii
            try:
                return binascii.a2b_hex(v)
            except Exception:
                raise Raised(ValueError, line, implicit=True)
        if isinstance(v, HexStr):
            if v.width % 2:
                raise Unsupported("a2b_hex of an odd-width hex text")
            n = v.width // 2
            inr = z3.And(v.value >= 0, v.value < 16 ** v.width)
            if not ex.ctx.branch(inr):
                # '%0Nx' grows beyond N digits (or prints a sign): with a sign, or with ONE more digit (an odd number of
                # them), a2b_hex refuses the text; two more digits would be one more byte (not modelled)
                import binascii
                if ex.ctx.branch(z3.Or(v.value < 0, v.value < 16 ** (v.width + 1))):
                    raise Raised(binascii.Error, line, implicit=True)
                raise Unsupported("hex text wider than its field by two digits or more")
            arr = z3.K(INT, z3.IntVal(0))
            for i in range(n):
                arr = z3.Store(arr, i, (v.value / (256 ** (n - 1 - i))) % 256)
            ex.ctx.tags.add("builtin:'%0Nx' % int followed by binascii.a2b_hex (big-endian bytes)")
            return SStr(z3.IntVal(n), arr, z3.IntVal(0), is_bytes=True)
        raise Unsupported("a2b_hex of %r" % (v,))

    def struct_pack(self, ex, args, line):
        fmt = args[0]
        if isinstance(fmt, SStr):
            fmt = try_concrete_str(fmt)
        import re as _re
        if not isinstance(fmt, str) or not _re.fullmatch(r"[<>=!@]?(\d*B)+", fmt):
            raise Unsupported("struct.pack format %r" % (fmt,))
        n = sum(int(k) if k else 1 for k in _re.findall(r"(\d*)B", fmt))
        vals = list(args[1:])
        if len(vals) != n:
            raise Raised(self.module("struct").error, line, implicit=True)
        arr = z3.K(INT, z3.IntVal(0))
        for i, x in enumerate(vals):
            e = zint(x)
            if not ex.ctx.branch(z3.And(e >= 0, e <= 255)):
                raise Raised(self.module("struct").error, line, implicit=True)
            arr = z3.Store(arr, i, e)
        return SStr(z3.IntVal(n), arr, z3.IntVal(0), is_bytes=True)
    deepcopy = _unsup("deepcopy")
    str_join = _unsup("str.join of symbolic strings")

    def percent_format(self, ex, fmt, tup):
        import re
        if fmt.count("%") == 1 and "%s" in fmt and len(tup) == 1 and isinstance(tup[0], SStr):
            pre, post = fmt.split("%s")
            r = tup[0]
            if pre:
                r = ex.str_concat(as_sstr(pre), r)
            if post:
                r = ex.str_concat(r, as_sstr(post))
            return r
        m = re.match(r"^%0(\d+)x$", fmt)
        if m and len(tup) == 1 and isinstance(tup[0], (SInt,)):
            return HexStr(tup[0].e, int(m.group(1)))
        m = re.match(r"^%sB$", fmt)
        if m and len(tup) == 1:
            cv = ex.ctx.concretize(zint(tup[0])) if not isinstance(tup[0], int) else tup[0]
            if cv is not None:
                return "%dB" % cv
        return None

    def all_ascii(self, s):
        """z3 Bool: every code point of s is in 0..127 (explicit for a known length; for an unknown length an
        uninterpreted predicate of the array segment, which is all a contract needs to name the condition)"""
        n = s.known_len()
        if n is not None:
            return z3.And([z3.And(s.at(i) >= 0, s.at(i) < 128) for i in range(n)]) if n else z3.BoolVal(True)
        f = self.__dict__.setdefault("_all_ascii_uf", z3.Function("all_ascii", ARR, INT, INT, z3.BoolSort()))
        return f(s.arr, z3.simplify(s.off), z3.simplify(s.length))

    def str_method(self, ex, s, name, args, kwargs, line):
        n = s.known_len()
        if name == "encode" and not s.is_bytes and not kwargs and len(args) == 1 and \
                (args[0] in ("ascii", "us-ascii", "ASCII") if isinstance(args[0], str) else False):
            if not ex.ctx.branch(self.all_ascii(s)):
                raise Raised(UnicodeEncodeError, line, implicit=True)
            return SStr(s.length, s.arr, s.off, is_bytes=True, maxlen=s.maxlen)
        if name in ("upper", "lower") and n is not None:
            arr = z3.K(INT, z3.IntVal(0))
            for i in range(n):
                c = s.at(i)
                if name == "upper":
                    c2 = z3.If(z3.And(c >= 97, c <= 122), c - 32, c)
                else:
                    c2 = z3.If(z3.And(c >= 65, c <= 90), c + 32, c)
                arr = z3.Store(arr, i, c2)
            ex.ctx.tags.add("assumes: ASCII case mapping for str.%s" % name)
            return SStr(z3.IntVal(n), arr, z3.IntVal(0))
        if name == "islower" and n is not None:
            # true iff at least one cased char and no uppercase (ASCII model)
            lows = [z3.And(s.at(i) >= 97, s.at(i) <= 122) for i in range(n)]
            ups = [z3.And(s.at(i) >= 65, s.at(i) <= 90) for i in range(n)]
            ex.ctx.tags.add("assumes: ASCII case mapping for str.islower")
            if not lows:
                return False
            return mk_bool(z3.And(z3.Or(lows), z3.Not(z3.Or(ups))))
        if name == "format":
            return ex.opaque_str()
        if name in ("strip", "lstrip", "rstrip") and len(args) <= 1 and (not args or isinstance(args[0], (str, bytes))) \
                and not kwargs:
            # a view s[lo:hi]: everything cut off is in the character set, the first / last character kept is not
            chars = list((args[0] if args else (" \t\n\r\x0b\x0c" if not s.is_bytes else b" \t\n\r\x0b\x0c")))
            codes = [c if isinstance(c, int) else ord(c) for c in chars]
            lo, hi = ex.ctx.fresh("strip_lo"), ex.ctx.fresh("strip_hi")
            inset = lambda e: z3.Or([e == k for k in codes]) if codes else z3.BoolVal(False)
            i = z3.Int("q_strip_i")
            cs = [0 <= lo, lo <= hi, hi <= s.length]
            if name == "rstrip":
                cs.append(lo == 0)
            else:
                cs.append(z3.ForAll([i], z3.Implies(z3.And(0 <= i, i < lo), inset(s.at(i)))))
                cs.append(z3.Or(lo == hi, z3.Not(inset(s.at(lo)))))
            if name == "lstrip":
                cs.append(hi == s.length)
            else:
                cs.append(z3.ForAll([i], z3.Implies(z3.And(hi <= i, i < s.length), inset(s.at(i)))))
                cs.append(z3.Or(lo == hi, z3.Not(inset(s.at(hi - 1)))))
            if name == "strip":
                # an all-in-set string: lo == hi (then where the empty view sits is immaterial)
                pass
            for c in cs:
                ex.ctx.assume(c)
            return SStr(z3.simplify(hi - lo), s.arr, z3.simplify(s.off + lo), is_bytes=s.is_bytes)
        if name == "count" and len(args) == 1 and args[0] in ("#", "b") and not s.is_bytes:
            kind = "sharp" if args[0] == "#" else "flat"
            return mk_int(ex.ctx.reg.cnt(kind, s.arr, s.off, s.off + s.length))
        if name == "islower" and n is None:
            # sound partial model: a string whose first character is an ASCII capital is not lower-case
            b = ex.ctx.fresh("islower", BOOL)
            c0 = s.at(0)
            ex.ctx.assume(z3.Implies(z3.And(s.length >= 1, c0 >= 65, c0 <= 90), z3.Not(b)))
            ex.ctx.tags.add("assumes: str.islower is False when the first character is an ASCII capital (partial model)")
            return SBool(b)
        if name in ("lower", "upper") and n is None:
            return ex.engine.case_map_unbounded(ex, s, name)
        if name == "split" and len(args) == 1 and args[0] == "-":
            # a name-like string (first char not '-', then only '#'/'b') contains no '-': split gives [s]
            nodash = z3.Or(s.length == 0,
                           z3.And(s.at(0) != 45, ex.ctx.reg.cnt("other", s.arr, s.off + 1, s.off + s.length) == 0))
            if ex.ctx.branch(nodash):
                return PList([s])
            raise Unsupported("str.split('-') of a string that may contain the separator")
        raise Unsupported("str.%s on a symbolic string" % name)

    def case_map_unbounded(self, ex, s, name):
        # pointwise ASCII case mapping as a lambda-defined array (same length, no quantifier)
        i = z3.Int("q_case_i")
        c = s.at(i)
        if name == "upper":
            c2 = z3.If(z3.And(c >= 97, c <= 122), c - 32, c)
        else:
            c2 = z3.If(z3.And(c >= 65, c <= 90), c + 32, c)
        ex.ctx.tags.add("assumes: ASCII case mapping for str.%s" % name)
        return SStr(s.length, z3.Lambda([i], c2), z3.IntVal(0), is_bytes=s.is_bytes, maxlen=s.maxlen)

    # ------------------------------------------------------------ contracts at call sites
    def resolve_exc(self, fref, ename):
        if "." in ename:
            m, _, n = ename.rpartition(".")
            return getattr(self.module(m), n)
        mod = self.module(fref.module)
        if hasattr(mod, ename):
            return getattr(mod, ename)
        import builtins
        if hasattr(builtins, ename):
            return getattr(builtins, ename)
        for m in ("mingus.core.mt_exceptions", "mingus.containers.mt_exceptions"):
            mm = self.module(m)
            if hasattr(mm, ename):
                return getattr(mm, ename)
        raise KeyError("exception class %s" % ename)

    @staticmethod
    def norm_named(x, default):
        if x is None:
            return []
        if isinstance(x, str):
            return [(default, x)]
        return list(x)

    def select_variant(self, fq, contract, env):
        """pick the typing variant of a contract that fits the argument kinds"""
        if not contract.get("variants"):
            return fq, contract
        def fits(c):
            return all(p not in env or self.kind_ok(env[p], t) for p, t in (c.get("params") or {}).items())
        if fits(contract):
            return fq, contract
        for var in contract["variants"]:
            k = fq + "#" + var["name"]
            if fits(self.contracts[k]):
                return k, self.contracts[k]
        return fq, contract

    def apply_contract(self, ex, fref, contract, env, line):
        ctx = ex.ctx
        fq, contract = self.select_variant(fref.fq, contract, env)
        if contract.get("trace"):
            # an abstract hook: its only modelled effect is one record on the ghost event trace
            names = [p.arg for p in fref.node.args.args]
            rec = (contract["trace"],) + tuple(env[n] for n in names if n != "self" or contract.get("trace_self"))
            ctx.__dict__.setdefault("trace", []).append(rec)
            ctx.used_contracts.add(fq)
            ctx.tags.add("ghost trace: %s modelled as appending one record" % fq.split("mingus.")[-1])
            return None
        ctx.used_contracts.add(fq)
        env = dict(env)
        topc0 = self.contracts.get(ex.top_fq) if ex.top_fq else None
        ev0 = (topc0.get("callee_events") or {}).get(fq.split("#")[0]) if topc0 else None
        if isinstance(ev0, dict) and ev0.get("delegation"):
            # pure delegation record: THAT the callee is called, with which arguments; whether those arguments are in the
            # callee's verified domain is the callee's business (its own contract and battery), not an obligation here
            names = [p.arg for p in fref.node.args.args if p.arg != "self" or ev0.get("with_receiver")]
            ctx.__dict__.setdefault("trace", []).append((ev0["name"],) + tuple(env.get(n) for n in names))
            ctx.tags.add("event view: %s recorded as one ghost event (delegation)" % fq.split("mingus.")[-1])
            for o in self.modifies_objects(ex, contract, env):
                ex.note_write(o)
            return self.fresh_of_type(ex, contract.get("returns", "None"), "ret_" + fq.rsplit(".", 1)[-1], env)
        self.coerce_params(ex, contract, env, fq, line)
        fq = fq.split("#")[0]
        for (nm, pre) in self.norm_named(contract.get("requires"), "pre"):
            g = ex.spec_bool(pre, env, goal=True)
            if not z3.is_true(z3.simplify(g)):
                ctx.emit("call-pre", "call-pre:%s/%s" % (fq.split("mingus.")[-1], nm), g, line)
        for ename, cond in (contract.get("raises") or {}).items():
            c = ex.spec_bool(cond, env)
            if ctx.branch(c):
                raise Raised(self.resolve_exc(fref, ename), line)
        for o in self.modifies_objects(ex, contract, env):
            ex.note_write(o)
        topc = self.contracts.get(ex.top_fq) if ex.top_fq else None
        evname = (topc.get("callee_events") or {}).get(fq) if topc else None
        if evname is not None:
            # event view of a callee (two-level argument): its precondition was just checked and its exceptions
            # branched on; what its own contract proves about the bytes it appends is not needed here, only THAT
            # it ran, with which arguments and in which order.  The fields it may change are havoced.
            with_recv = isinstance(evname, dict) and evname.get("with_receiver")
            names = [p.arg for p in fref.node.args.args if p.arg != "self" or with_recv]
            ctx.__dict__.setdefault("trace", []).append((evname,) + tuple(env[n] for n in names))
            ctx.tags.add("event view: %s recorded as one ghost event (its byte-level contract is proved separately)"
                         % fq.split("mingus.")[-1])
            keep = ()
            if isinstance(evname, dict):
                keep = tuple(evname.get("assume") or ())
                evname = evname["name"]
                ctx.trace[-1] = (evname,) + ctx.trace[-1][1:]
            env2 = dict(env)
            for nm, expr in (contract.get("old") or {}).items():
                env2[nm] = self.snapshot(ex.spec_eval(expr, env2))
            for path, t in (contract.get("havoc") or {}).items():
                self.havoc_path(ex, env2, path, t)
            res = None
            for (nm, e) in self.norm_named(contract.get("ensures"), "post"):
                m = re.fullmatch(r"\s*same_object\(\s*result\s*,\s*([A-Za-z_][\w.]*)\s*\)\s*", e)
                if m and nm in keep:
                    res = ex.spec_eval(m.group(1), env2)      # 'returns X itself': hand X back
            if res is None:
                res = self.fresh_of_type(ex, contract.get("returns", "None"), "ret_" + fq.rsplit(".", 1)[-1], env)
            env2["result"] = res
            for (nm, e) in self.norm_named(contract.get("ensures"), "post"):
                if nm in keep:      # the state clauses of the callee the caller's argument needs (assuming less is sound)
                    ex.ctx.assume_mode = True
                    try:
                        ex.ctx.assume(ex.spec_bool(e, env2))
                    finally:
                        ex.ctx.assume_mode = False
            if keep and not ex.ctx.feasible(z3.BoolVal(True)):
                raise Unsupported("the clauses assumed for %s (event view) are inconsistent with the state at this call "
                                  "(everything after it would be proved vacuously)" % fq)
            return res
        cases = contract.get("cases")
        if cases:
            for nm, expr in (contract.get("old") or {}).items():
                env[nm] = self.snapshot(ex.spec_eval(expr, env))      # pre-state names, shared by every case
            chosen = None
            for case in cases:
                w = case.get("when")
                if w is None or ctx.branch(ex.spec_bool(w, env)):
                    chosen = case
                    break
            if chosen is None:
                raise Infeasible()
            chosen = dict(chosen)
            chosen.setdefault("havoc", contract.get("havoc"))      # what the call may change is said once, for all cases
            chosen.setdefault("pure", contract.get("pure"))
            return self.assume_post(ex, chosen, env, fq)
        return self.assume_post(ex, contract, env, fq)

    def value_key(self, v):
        if isinstance(v, SStr):
            return ("s", v.arr.get_id(), z3.simplify(v.off).get_id(), z3.simplify(v.length).get_id())
        if isinstance(v, (SInt, SBool, SReal)):
            return ("e", z3.simplify(v.e).get_id())
        if isinstance(v, Obj):
            return ("o", v.cls.__name__) + tuple((k, self.value_key(x)) for k, x in sorted(v.fields.items()))
        if isinstance(v, PList):
            return ("l",) + tuple(self.value_key(x) for x in v.items)
        if isinstance(v, tuple):
            return ("t",) + tuple(self.value_key(x) for x in v)
        if isinstance(v, SIntSet):
            return ("is", v.ident)
        if isinstance(v, (RepList, SList, PDict, PSet)):
            return ("id", id(v))
        return ("c", repr(v))

    def assume_post(self, ex, c, env, fq):
        if c.get("pure"):
            key = (fq,) + tuple((k, self.value_key(v)) for k, v in sorted(env.items()))
            memo = ex.ctx.__dict__.setdefault("pure_memo", {})
            if key in memo:
                return memo[key]
            r = self._assume_post(ex, c, env, fq)
            memo[key] = r
            return r
        return self._assume_post(ex, c, env, fq)

    def _assume_post(self, ex, c, env, fq):
        old = {}
        for nm, expr in (c.get("old") or {}).items():
            old[nm] = ex.spec_eval(expr, env)
        env.update(old)
        havoc = c.get("havoc")
        if havoc:
            for path, t in havoc.items():
                self.havoc_path(ex, env, path, t)
        alias = None
        for (nm, e) in self.norm_named(c.get("ensures"), "post"):
            m = re.fullmatch(r"\s*same_object\(\s*result\s*,\s*([A-Za-z_][\w.]*)\s*\)\s*", e)
            if m:
                alias = m.group(1)      # the contract promises the result IS that object: hand that object back
        if alias is not None:
            res = ex.spec_eval(alias, env)
        elif c.get("result_is"):
            res = fresh_copy(ex.spec_eval(c["result_is"], env))
        else:
            res = self.fresh_of_type(ex, c.get("returns", "None"), "ret_" + fq.rsplit(".", 1)[-1], env)
        env["result"] = res
        if c.get("emits") is not None:
            # the callee's whole effect on the ghost event trace
            ev = ex.spec_eval(c["emits"], env)
            ex.ctx.__dict__.setdefault("trace", []).extend(list(ev.items))
        skip = ()
        top = self.contracts.get(ex.top_fq) if ex.top_fq else None
        if top:
            skip = tuple(top.get("skip_callee_clauses") or ())
        for (nm, e) in self.norm_named(c.get("ensures"), "post"):
            if nm in skip or "*" in skip and not nm.startswith(("one-octave", "twelve-notes", "begins-on")):
                continue   # assuming less about a callee is always sound
            ex.ctx.assume_mode = True
            try:
                ex.ctx.assume(ex.spec_bool(e, env))
            finally:
                ex.ctx.assume_mode = False
        # vacuity guard: assuming a callee's postcondition must not make the path contradictory
        if not ex.ctx.feasible(z3.BoolVal(True)):
            raise Unsupported("the postcondition assumed for %s is inconsistent with the state at this call "
                              "(everything after it would be proved vacuously)" % fq)
        return res

    def havoc_path(self, ex, env, path, t):
        """havoc 'self.field' (dotted path from a parameter) with a fresh value of type t."""
        parts = path.split(".")
        o = env[parts[0]]
        for p in parts[1:-1]:
            o = o.fields[p]
        if isinstance(o, FileObj) and parts[-1] == "pos":
            ex.note_write(o)
            o.pos = ex.ctx.fresh("fpos")       # a callee moved the read position: its contract says where to
            return
        if not isinstance(o, Obj):
            raise Unsupported("havoc of non-object path " + path)
        ex.note_write(o)
        o.fields[parts[-1]] = self.fresh_of_type(ex, t, path, env)

    def modifies_objects(self, ex, contract, env):
        return []

    def coerce_params(self, ex, contract, env, fq, line):
        """Check argument kinds against declared parameter types (a mismatch is a failed precondition)."""
        ptypes = contract.get("params") or {}
        for p, t in ptypes.items():
            if p not in env:
                continue
            v = env[p]
            if not self.kind_ok(v, t):
                ex.ctx.emit("call-pre", "call-pre:%s/type-of-%s" % (fq.split("mingus.")[-1], p), False, line,
                            note="argument %r is not of declared type %s" % (v, t))

    def kind_ok(self, v, t):
        if isinstance(t, (list, tuple)) and not isinstance(t, str):
            return isinstance(v, PList) and len(v.items) == len(t)
        alts = [t.strip()] if t.strip()[:1] in "[(" else [x.strip() for x in t.split("|")]
        for a in alts:
            if a in ("int", "nat") and is_intlike(v) and not isinstance(v, (bool, SBool)):
                return True
            if a == "bool" and isinstance(v, (bool, SBool)):
                return True
            if a in ("real", "float") and isinstance(v, (int, float, SInt, SReal)) and not isinstance(v, bool):
                return True
            if a in ("str", "char") and is_strlike(v):
                return True
            if a.startswith("=") and v is not None:
                return True
            if a.startswith("bytes") and is_strlike(v):
                return True
            if a in ("None", "none") and v is None:
                return True
            if a == "False" and v is False:
                return True
            if a == "True" and v is True:
                return True
            if a == "any":
                return True
            if a.startswith("[") and isinstance(v, PList) and len(split_top(a[1:-1])) == len(v.items):
                return True
            if a.startswith("(") and isinstance(v, tuple):
                parts = split_top(a[1:-1])
                if len(parts) == len(v) and all(p.strip().startswith(("dict[", "(")) is False or self.kind_ok(x, p.strip())
                                                for x, p in zip(v, parts)):
                    return True
                if len(parts) != len(v):
                    continue
                return False
            if a.startswith("list[") and isinstance(v, (PList, SList, RepList)):
                return True
            if a.startswith("periodic[") and isinstance(v, (PList, RepList)):
                return True
            if a == "intset" and isinstance(v, (SIntSet, tuple, PList, PSet)):
                return True
            if a == "emptydict" and isinstance(v, PDict) and not v.d:
                return True
            if a.startswith("dict[") and isinstance(v, PDict):
                want = [kv.split(":", 1)[0].strip() for kv in split_top(a[5:-1])]
                if sorted(want) == sorted(str(k) for k in v.d):      # exactly the declared keys
                    return True
                continue
            if a == "file" and isinstance(v, FileObj):
                return True
            if a in self.classes and isinstance(v, Obj):
                modname, _, cls = self.classes[a]["class"].rpartition(".")
                if issubclass(v.cls, getattr(self.module(modname), cls)):
                    return True
        return False

    # ------------------------------------------------------------ verification of one function
    def verify(self, fq, split_index=None, solve=True):
        """Generate and discharge all obligations of one function (optionally one split case).

        Returns a dict with per-VC results.
        """
        contract = self.contracts[fq]
        fref = self.funcref_by_name(fq)
        t0 = time.time()
        results = []
        undecided = []
        used = set()
        inlined = set()
        tags = set()
        npaths = 0
        exits = {"return": 0, "raise": 0, "cut": 0}
        reachable_exits = 0
        splits = contract.get("split")
        split_expr = None
        if splits and split_index is not None:
            split_expr = splits[split_index]
        work = [[]]
        cpu0 = time.process_time()
        deco = [ast.unparse(d) for d in getattr(fref.node, "decorator_list", [])
                if ast.unparse(d).split(".")[-1] not in ("property", "setter", "staticmethod", "classmethod")]
        if deco:
            # what runs is the decorator's wrapper, not (only) this body: the body's proof says nothing about it
            undecided.append(("unsupported", "the function is wrapped by decorator(s) %s: the contract is about the wrapped "
                              "function as callers see it, which the generator cannot see through" % ", ".join(deco)))
            work = []
        while work:
            decisions = work.pop()
            npaths += 1
            if time.process_time() - cpu0 > (300 if self.timeout_ms < 60000 else 1800):     # CPU seconds: load-independent
                # a change that multiplies the paths of a function (a fork per element, say) must not hold the whole
                # check up: the function is undecided and falls back on its run-time contract
                undecided.append(("budget", "path exploration of this case exceeded its time budget after %d paths" % npaths))
                break
            if npaths > self.max_paths:
                undecided.append(("paths", "more than %d paths" % self.max_paths))
                break
            ctx = Ctx(self, decisions)
            ex = Exec(self, ctx, concrete=bool(contract.get("inline_all")))
            ex.top_fq = fq
            outcome = None
            try:
                c_eff = contract
                if isinstance(split_expr, dict) and split_expr.get("param_types"):
                    # this case of the split fixes the SHAPE of a parameter (a list of k elements ...)
                    c_eff = dict(contract)
                    c_eff["params"] = dict(contract.get("params") or {}, **split_expr["param_types"])
                env = self.make_params(ex, fref, c_eff,
                                       bind=split_expr.get("bind") if isinstance(split_expr, dict) else None)
                if isinstance(split_expr, dict):
                    split_expr_s = split_expr.get("assume")
                else:
                    split_expr_s = split_expr
                penv = dict(env)
                if isinstance(split_expr, dict) and split_expr.get("bind_fields"):
                    for path, val in split_expr["bind_fields"].items():
                        parts = path.split(".")
                        o = env[parts[0]]
                        for pp in parts[1:-1]:
                            o = o.fields[pp]
                        o.fields[parts[-1]] = from_py(val)
                if isinstance(split_expr, dict) and split_expr.get("field_types"):
                    for path, ty in split_expr["field_types"].items():
                        parts = path.split(".")
                        o = env[parts[0]]
                        for pp in parts[1:-1]:
                            o = o.items[int(pp)] if isinstance(o, PList) else o.fields[pp]
                        o.fields[parts[-1]] = self.fresh_of_type(ex, ty, path, env)
                        taint(o.fields[parts[-1]], "param:" + ".".join(pp for pp in parts if not pp.isdigit()))
                if isinstance(split_expr, dict) and split_expr.get("alias"):
                    # this case is about a call in which one argument IS an object reachable from another
                    for pname, path in split_expr["alias"].items():
                        parts = path.split(".")
                        o = env[parts[0]]
                        for pp in parts[1:]:
                            o = o.items[int(pp)] if isinstance(o, PList) else o.fields[pp]
                        env[pname] = o
                    penv = dict(env)
                if isinstance(split_expr, dict) and split_expr.get("module_state"):
                    for path, expr in split_expr["module_state"].items():
                        modname, _, attr = path.rpartition(".")
                        real = getattr(self.module(modname), attr)
                        w = ex.wrap(real, "module:" + path)
                        val = ex.spec_eval(expr, penv)
                        if isinstance(w, PDict) and isinstance(val, PDict):
                            w.d = dict(val.d)
                        elif isinstance(w, PList) and isinstance(val, PList):
                            w.items = list(val.items)
                        else:
                            raise Unsupported("module_state of %s" % path)
                        taint(w, "module:" + path)
                ctx.hyp_mode = True
                try:
                    for (nm, pre) in self.norm_named(contract.get("requires"), "pre"):
                        ctx.assume(ex.spec_bool(pre, penv))
                finally:
                    ctx.hyp_mode = False
                if split_expr_s is not None:
                    ctx.assume(ex.spec_bool(split_expr_s, penv))
                for nm, expr in (contract.get("old") or {}).items():
                    v_old = ex.spec_eval(expr, penv)
                    # pre-state names are copies, except those the contract uses for OBJECT identity / later state
                    penv[nm] = v_old if nm in (contract.get("old_by_reference") or ()) else self.snapshot(v_old)
                memo = {}
                pre_env = dict((k, self.deep_snapshot(v, memo)) for k, v in penv.items())
                ex.pre_env = pre_env
                ctx.writes = []
                ex.frames.append(Frame(fref, env, fref.module, closure=[]))
                try:
                    try:
                        ex.exec_block(fref.node.body)
                        outcome = ("return", None, None)
                    except ReturnSig as r:
                        outcome = ("return", r.value, None)
                    except Raised as r:
                        outcome = ("raise", r.cls, r)
                    except PathCut:
                        outcome = ("cut", None, None)
                finally:
                    ex.frames.pop()
                exits[outcome[0]] += 1
                if outcome[0] != "cut":
                    self.exit_obligations(ex, fref, contract, penv, env, outcome)
            except Infeasible:
                # the path condition became contradictory (e.g. after a failed obligation was assumed):
                # the path ends here, but the obligations emitted so far still count
                pass
            except Unsupported as u:
                undecided.append(("unsupported", str(u)))
            except RecursionError:
                undecided.append(("unsupported", "recursion depth"))
            work.extend(ctx.alternatives)
            used |= ctx.used_contracts
            inlined |= ctx.inlined
            tags |= ctx.tags
            axioms = ctx.axioms()
            if outcome is not None and outcome[0] != "cut" and solve:
                # reachability canary for this exit
                r = self.check_sat(ctx.pc_at_exit if hasattr(ctx, "pc_at_exit") else ctx.pc, axioms, 1500)
                if r != "unsat":     # only a path condition PROVED contradictory counts as unreachable
                    reachable_exits += 1
            for vc in ctx.vcs:
                if solve:
                    res = self.discharge(vc, axioms, ctx)
                else:
                    res = {"verdict": "generated"}
                res.update({"label": vc.label, "kind": vc.kind, "line": vc.line, "note": vc.note,
                            "path": "".join("T" if d else "F" for d in ctx.taken)})
                results.append(res)
        out = {
            "function": fq, "split": split_index, "source_sha1": self.source_hash(fref),
            "paths": npaths, "exits": exits, "reachable_exits": reachable_exits,
            "results": results, "undecided": undecided,
            "used_contracts": sorted(used), "inlined": sorted(inlined), "tags": sorted(tags),
            "wall_s": round(time.time() - t0, 3),
        }
        return out

    def deep_snapshot(self, v, memo=None):
        """copy of the mutable part of a value graph (pre-state for raises / case conditions)"""
        memo = {} if memo is None else memo
        if id(v) in memo:
            return memo[id(v)]
        if isinstance(v, Obj):
            o = Obj(v.cls, {}, v.origin)
            memo[id(v)] = o
            for k, x in v.fields.items():
                o.fields[k] = self.deep_snapshot(x, memo)
            return o
        if isinstance(v, FileObj):
            o = FileObj(v.data, v.pos, v.origin)
        elif isinstance(v, PList):
            o = PList([], v.origin)
            memo[id(v)] = o
            o.items = [self.deep_snapshot(x, memo) for x in v.items]
            return o
        elif isinstance(v, PDict):
            o = PDict({}, v.origin)
            memo[id(v)] = o
            o.d = dict((k, self.deep_snapshot(x, memo)) for k, x in v.d.items())
            return o
        elif isinstance(v, SList):
            o = SList(v.length, v.arr, v.kind, v.origin)
        elif isinstance(v, RepList):
            o = RepList(v.base, v.count, v.tail, v.origin, head=v.head)
        elif isinstance(v, tuple):
            return tuple(self.deep_snapshot(x, memo) for x in v)
        else:
            return v
        memo[id(v)] = o
        return o

    def snapshot(self, v):
        if isinstance(v, SList):
            return SList(v.length, v.arr, v.kind)
        if isinstance(v, PList):
            return tuple(self.snapshot(x) for x in v.items)
        if isinstance(v, PDict):
            return PDict(dict((k, self.snapshot(x)) for k, x in v.d.items()))
        return v

    def make_params(self, ex, fref, contract, bind=None):
        env = {}
        ptypes = contract.get("params") or {}
        a = fref.node.args
        names = [p.arg for p in a.posonlyargs + a.args + a.kwonlyargs]
        defaults = dict(zip([x.arg for x in (a.posonlyargs + a.args)][::-1], a.defaults[::-1]))
        defaults.update((x.arg, d) for x, d in zip(a.kwonlyargs, a.kw_defaults) if d is not None)
        for p in names:
            if p not in ptypes and p in defaults or ptypes.get(p) == "default":
                # the contract is about calls that omit this argument: it takes the function's default object
                env[p] = ex.eval_default(fref, defaults[p])
                continue
            if p not in ptypes:
                raise Unsupported("contract of %s gives no type for parameter %s" % (fref.fq, p))
            if bind and p in bind:
                v = from_py(bind[p])
            else:
                v = self.fresh_of_type(ex, ptypes[p], p)
            if isinstance(v, (PList, PDict, SList)) and v.origin is None:
                v.origin = "param:" + p
            env[p] = v
            ex.ctx.symvars[p] = v
        return env

    def exit_obligations(self, ex, fref, contract, penv, env, outcome):
        ctx = ex.ctx
        kind, val, r = outcome
        raises = contract.get("raises") or {}
        fqs = fref.fq
        # ---- frame
        allowed = set(contract.get("modifies") or [])
        bad = [w for w in ctx.writes if w not in allowed and not any(w.startswith(a + ".") for a in allowed)]
        pre_env = getattr(ex, "pre_env", penv)
        if kind == "return":
            for ename, cond in raises.items():
                c = ex.spec_bool(cond, pre_env, goal=True)
                ctx.emit("raises", "raises/%s-not-missed" % ename, z3.Not(c), None)
            cases = contract.get("cases")
            posts = contract
            if cases:
                whens = []
                decided = False      # an earlier guard is literally true: later guards are never consulted (first match)
                for i, case in enumerate(cases):
                    if decided:
                        w = z3.BoolVal(False)
                    else:
                        w = ex.spec_bool(case["when"], pre_env) if case.get("when") else z3.BoolVal(True)
                        if z3.is_true(z3.simplify(w)):
                            decided = True
                    whens.append(w)
                ctx.emit("post", "post/cases-complete", z3.Or(whens), None)
                for i, case in enumerate(cases):
                    # first matching case applies
                    eff = z3.And([whens[i]] + [z3.Not(w) for w in whens[:i]])
                    self.post_for(ex, case, penv, val, eff, "case%d" % i, contract)
            else:
                self.post_for(ex, contract, penv, val, None, None, contract)
            if bad:
                ctx.emit("frame", "frame/writes-outside-modifies", False, None, note="writes to %s" % sorted(set(bad)))
            else:
                ctx.emit("frame", "frame/writes-outside-modifies", True, None)
            self.field_frame(ex, contract, env, pre_env)
        else:
            cls = val
            name = cls.__name__
            matched = None
            for ename, cond in raises.items():
                try:
                    want = self.resolve_exc(fref, ename)
                except KeyError:
                    want = None
                if want is not None and cls is want or (want is None and ename == name):
                    matched = (ename, cond)
            if matched is None:
                ctx.emit("raises", "raises/no-unexpected-exception", False, r.line,
                         note="%s escapes at line %s %s" % (name, r.line, r.note))
            else:
                c = ex.spec_bool(matched[1], pre_env, goal=True)
                ctx.emit("raises", "raises/%s-only-when-specified" % matched[0], c, r.line)
                if bad:
                    ctx.emit("frame", "frame/writes-outside-modifies", False, None,
                             note="writes to %s" % sorted(set(bad)))

    def field_frame(self, ex, contract, env, pre_env):
        """a contract that declares `havoc` is assumed at call sites with exactly those fields changed: so the function
        itself must leave every OTHER scalar field of its object parameters as it was (field-granular frame)"""
        if "havoc" not in contract:
            return
        if contract.get("emits") is not None or contract.get("callee_events") or contract.get("trace") or \
                any(cs.get("emits") is not None for cs in (contract.get("cases") or [])):
            return      # event view: what happens to the other fields is what the events say, not a field comparison
        hav = set(contract.get("havoc") or {})
        for p, t in (contract.get("params") or {}).items():
            cur, pre = env.get(p), pre_env.get(p)
            if not isinstance(cur, Obj) or not isinstance(pre, Obj):
                continue
            for f, was in pre.fields.items():
                key = "%s.%s" % (p, f)
                if key in hav or any(h.startswith(key + ".") for h in hav):
                    continue
                now = cur.fields.get(f, None)
                if isinstance(was, (bool, int, float, str, bytes, SInt, SBool, SReal, SStr)) or was is None:
                    if now is None and was is not None:
                        same = z3.BoolVal(False)
                    elif now is None and was is None:
                        same = z3.BoolVal(True)
                    else:
                        try:
                            same = ex.spec_bool("ff_now == ff_was", {"ff_now": now, "ff_was": was}, goal=True)
                        except (Raised, Unsupported, KeyError):
                            continue
                    ex.ctx.emit("frame", "frame/field-%s-not-declared-changed-is-unchanged" % key, same, None)
                elif isinstance(was, (PList, SList)) and isinstance(now, (PList, SList)):
                    ln_w = len(was.items) if isinstance(was, PList) else was.length
                    ln_n = len(now.items) if isinstance(now, PList) else now.length
                    g = (ln_w == ln_n)
                    g = z3.BoolVal(g) if isinstance(g, bool) else g
                    ex.ctx.emit("frame", "frame/field-%s-not-declared-changed-keeps-its-length" % key, g, None)

    def post_for(self, ex, c, penv, val, when, tag, contract):
        ctx = ex.ctx
        env = dict(penv)
        env["result"] = val
        rt = c.get("returns", contract.get("returns", "None"))
        ok = self.kind_ok(val, rt) if rt != "None" else (val is None)
        pre = "post" if tag is None else "post/" + tag
        if not ok:
            g = z3.BoolVal(False) if when is None else z3.Not(when)
            ctx.emit("post", pre + "/result-type", g, None, note="returned %r, declared %s" % (val, rt))
            return
        named_posts = self.norm_named(c.get("ensures"), "ensures")
        if c.get("emits") is not None:
            named_posts = named_posts + [("emits-exactly-these-events-in-this-order", "trace_events() == (%s)" % c["emits"])]
        if c.get("result_is"):
            named_posts = [("result-is", "result == (%s)" % c["result_is"])] + named_posts
        for (nm, e) in named_posts:
            try:
                g = ex.spec_bool(e, env, goal=True)
            except (Raised, Unsupported):
                # a clause that is not defined in this state: harmless only if its case cannot apply on this path
                if when is not None and not ctx.feasible(when):
                    ctx.emit("post", "%s/%s" % (pre, nm), True, None, note="case not applicable on this path")
                    continue
                if not ctx.feasible(z3.BoolVal(True)):
                    # an earlier clause of this exit already failed (emitted goals are assumed afterwards): the
                    # state is contradictory, the clause is reported through that earlier obligation
                    continue
                raise
            if when is not None:
                g = z3.Implies(when, g)
            ctx.emit("post", "%s/%s" % (pre, nm), g, None)

    # ------------------------------------------------------------ solving
    def check_sat(self, pc, axioms, timeout_ms):
        s = z3.Solver()
        s.set("timeout", timeout_ms)
        for p in pc:
            s.add(p)
        for a in axioms:
            s.add(a)
        r = s.check()
        return str(r)

    solve_inline = False
    second_opinion = False

    def discharge(self, vc, axioms, ctx):
        if vc.pre is not None:
            return dict(vc.pre)
        t0 = time.time()
        g = z3.simplify(vc.goal)
        if z3.is_true(g):
            return {"verdict": "proved", "backend": "simplifier", "ms": 0.0}
        s = z3.Solver()
        s.set("timeout", self.timeout_ms)
        for p in vc.pc:
            s.add(p)
        for a in axioms:
            s.add(a)
        s.add(z3.Not(vc.goal))
        r = s.check()
        ms = round((time.time() - t0) * 1000, 1)
        if r == z3.unsat:
            out = {"verdict": "proved", "backend": "z3", "ms": ms}
            if self.second_opinion:
                # thorough tier: every obligation z3 proves is handed to cvc5 as an independent second opinion
                v2 = run_cvc5(s.to_smt2(), min(self.timeout_ms, 20000))
                out["cvc5"] = v2
                if v2 == "sat":
                    out["verdict"] = "disagreement"
            return out
        if r == z3.sat:
            m = s.model()
            # refine the counter-model: within a small length bound the ghost counters are given their exact
            # meaning (full unfolding), so that the decoded strings are consistent with them
            try:
                s.push()
                W = 7
                for (arr, lo, hi, depth) in list(ctx.reg.terms.values()):
                    s.add(hi - lo <= W)
                    for kind in ghost.KINDS:
                        tot = z3.IntVal(0)
                        for d in range(W):
                            tot = tot + z3.If(lo + d < hi, ghost.ind(kind, z3.Select(arr, lo + d)), 0)
                        s.add(z3.Implies(hi >= lo, ghost.FUN[kind](arr, lo, hi) == tot))
                for v in ctx.symvars.values():
                    for sv in _strings_in(v):
                        s.add(sv.length <= W)
                        for d in range(W):
                            c = sv.at(d)
                            s.add(z3.Implies(d < sv.length, z3.And(c >= 32, c < 127)))
                s.set("timeout", 3000)
                if s.check() == z3.sat:
                    m = s.model()
                s.pop()
            except Exception:
                pass
            inputs = {}
            try:
                for name, v in ctx.symvars.items():
                    inputs[name] = decode(v, m)
            except Exception as e:  # noqa
                inputs = {"_decode_error": repr(e)}
            return {"verdict": "refuted", "backend": "z3", "ms": ms, "model": inputs,
                    "smt2": s.to_smt2() if self.keep_smt else None}
        # unknown: second opinion from cvc5
        smt2 = s.to_smt2()
        v2 = run_cvc5(smt2, self.timeout_ms)
        ms = round((time.time() - t0) * 1000, 1)
        if v2 == "unsat":
            return {"verdict": "proved", "backend": "cvc5", "ms": ms}
        if v2 == "sat":
            return {"verdict": "refuted", "backend": "cvc5", "ms": ms, "model": None}
        return {"verdict": "unknown", "backend": "z3+cvc5", "ms": ms, "reason": s.reason_unknown()}

    keep_smt = False


def _walk_defs(fn):
    """FunctionDef/ClassDef nodes nested anywhere inside function fn (not entering other defs)."""
    stack = list(fn.body)
    while stack:
        n = stack.pop(0)
        if isinstance(n, (ast.FunctionDef, ast.ClassDef)):
            yield n
            continue
        stack.extend(ast.iter_child_nodes(n))


def run_cvc5(smt2, timeout_ms):
    exe = "/usr/bin/cvc5"
    if not os.path.exists(exe):
        return "unknown"
    fd, path = tempfile.mkstemp(suffix=".smt2")
    try:
        with os.fdopen(fd, "w") as f:
            f.write("(set-logic ALL)\n")
            f.write(smt2)
        try:
            p = subprocess.run([exe, "--tlimit=%d" % timeout_ms, path], capture_output=True, text=True,
                               timeout=timeout_ms / 1000.0 + 5)
        except subprocess.TimeoutExpired:
            return "unknown"
        out = p.stdout.strip().split("\n")[0] if p.stdout.strip() else ""
        if out in ("sat", "unsat"):
            return out
        return "unknown"
    finally:
        os.unlink(path)


def _strings_in(v, depth=0):
    if depth > 4:
        return
    if isinstance(v, SStr):
        yield v
    elif isinstance(v, PList):
        for x in v.items:
            for y in _strings_in(x, depth + 1):
                yield y
    elif isinstance(v, tuple):
        for x in v:
            for y in _strings_in(x, depth + 1):
                yield y
    elif isinstance(v, Obj):
        for x in v.fields.values():
            for y in _strings_in(x, depth + 1):
                yield y


def to_py(v):
    """interpreter value -> plain Python value (only if fully concrete)."""
    if v is None or isinstance(v, (bool, int, float, str, bytes)):
        return v
    if isinstance(v, SStr):
        c = try_concrete_str(v)
        if c is None:
            raise Unsupported("primitive spec function applied to a symbolic string")
        return c
    if isinstance(v, (SInt, SBool, SReal)):
        raise Unsupported("primitive spec function applied to a symbolic value")
    if isinstance(v, PList):
        return [to_py(x) for x in v.items]
    if isinstance(v, tuple):
        return tuple(to_py(x) for x in v)
    if isinstance(v, PDict):
        return dict((k, to_py(x)) for k, x in v.d.items())
    if isinstance(v, PSet):
        return set(to_py(x) for x in v.items)
    raise Unsupported("primitive spec function applied to %r" % (v,))


def from_py(v):
    if v is None or isinstance(v, (bool, int, float, str, bytes)):
        return v
    if isinstance(v, list):
        return PList([from_py(x) for x in v])
    if isinstance(v, tuple):
        return tuple(from_py(x) for x in v)
    if isinstance(v, dict):
        return PDict(dict((k, from_py(x)) for k, x in v.items()))
    if isinstance(v, (set, frozenset)):
        return PSet([from_py(x) for x in sorted(v, key=repr)])
    raise Unsupported("value %r from a primitive spec function" % (v,))


def taint(v, origin, memo=None):
    """everything reachable from a module-level object is module state"""
    memo = set() if memo is None else memo
    if id(v) in memo:
        return
    memo.add(id(v))
    if isinstance(v, (PList, PSet)):
        if v.origin is None:
            v.origin = origin
        for x in v.items:
            taint(x, origin, memo)
    elif isinstance(v, PDict):
        if v.origin is None:
            v.origin = origin
        for x in v.d.values():
            taint(x, origin, memo)
    elif isinstance(v, tuple):
        for x in v:
            taint(x, origin, memo)
    elif isinstance(v, (SList, RepList, Obj)):
        if getattr(v, "origin", None) is None:
            v.origin = origin
        if isinstance(v, Obj):
            for x in v.fields.values():
                taint(x, origin, memo)


def fresh_copy(v):
    """A value returned through a contract is a NEW object (no aliasing with spec-side values)."""
    if isinstance(v, PList):
        return PList([fresh_copy(x) for x in v.items])
    if isinstance(v, PDict):
        return PDict(dict((k, fresh_copy(x)) for k, x in v.d.items()))
    return v


def decode(v, m, maxlen=48):
    """Symbolic value -> concrete JSON-able Python value under model m."""
    if isinstance(v, SInt):
        return m.eval(v.e, model_completion=True).as_long()
    if isinstance(v, SBool):
        return z3.is_true(m.eval(v.e, model_completion=True))
    if isinstance(v, SReal):
        r = m.eval(v.e, model_completion=True)
        try:
            return float(r.numerator_as_long()) / float(r.denominator_as_long())
        except Exception:
            return float(r.approx(12).numerator_as_long()) / float(r.approx(12).denominator_as_long())
    if isinstance(v, SStr):
        n = m.eval(v.length, model_completion=True).as_long()
        n = max(0, min(n, maxlen))
        off = m.eval(v.off, model_completion=True).as_long()
        chars = []
        for i in range(n):
            c = m.eval(z3.Select(v.arr, off + i), model_completion=True).as_long()
            if v.is_bytes:
                chars.append(c % 256)
            else:
                chars.append(chr(c) if 32 <= c < 0x10FFFF and not (0xD800 <= c <= 0xDFFF) else "?")
        if v.is_bytes:
            return {"__bytes__": chars}
        return "".join(chars)
    if isinstance(v, PList):
        return [decode(x, m) for x in v.items]
    if isinstance(v, tuple):
        return {"__tuple__": [decode(x, m) for x in v]}
    if isinstance(v, Obj):
        return {"__class__": v.cls.__module__ + "." + v.cls.__name__,
                "fields": dict((k, decode(x, m)) for k, x in v.fields.items())}
    if isinstance(v, PDict):
        return {"__dict__": [[k, decode(x, m)] for k, x in v.d.items()]}
    if v is None or isinstance(v, (bool, int, float, str)):
        return v
    if isinstance(v, bytes):
        return {"__bytes__": list(v)}
    return repr(v)
