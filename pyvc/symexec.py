"""Forward symbolic executor over the ASTs of the real repository functions.

One *path* per run: the executor is re-run from the function entry with a
prefix of branch decisions (depth-first enumeration by re-execution), so no
state copying is needed and Python objects can carry identity and mutation
directly.  Loops with an invariant are cut; loops over a concrete finite
iterable are unrolled; calls to functions that have a contract use the contract
(never the body); calls to functions marked inline are executed in place.
"""
import ast
import os
import re
import importlib
import sys
import types
import z3

from .values import *  # noqa
from . import ghost


class PathCut(Exception):
    pass


class Infeasible(Exception):
    pass


class ReturnSig(Exception):
    def __init__(self, value):
        self.value = value


class BreakSig(Exception):
    pass


class ContinueSig(Exception):
    pass


class Raised(Exception):
    """A Python exception propagating through the interpreted code."""

    def __init__(self, cls, line=None, implicit=False, note=""):
        Exception.__init__(self, "%s@%s" % (getattr(cls, "__name__", cls), line))
        self.cls = cls
        self.line = line
        self.implicit = implicit
        self.note = note


class PIter(object):
    """Result of reversed()/enumerate()/zip()/islice(): iterable, not subscriptable."""

    def __init__(self, items):
        self.items = list(items)


class VC(object):
    pre = None

    def __init__(self, kind, label, pc, goal, line, note=""):
        self.kind = kind
        self.label = label
        self.pc = pc
        self.goal = goal
        self.line = line
        self.note = note


class Ctx(object):
    """State of one path."""

    def __init__(self, engine, decisions):
        self.engine = engine
        self.decisions = list(decisions)
        self.taken = []
        self.alternatives = []
        self.pc = []
        self.vcs = []
        self.reg = ghost.Registry()
        self.nfresh = 0
        self.used_contracts = set()
        self.inlined = set()
        self.tags = set()
        self.wrap_cache = {}
        self.symvars = {}
        self.writes = []          # origins of mutated pre-existing objects
        self._solver = None
        self._ax_added = set()
        self.goal_mode = False    # True while a contract expression is evaluated as a proof goal
        self.assume_mode = False  # True while a callee's postcondition is being assumed
        self.hyp_mode = False     # True while a loop invariant / precondition is being assumed
        self.alloc = 0

    # -- fresh symbols
    def fresh(self, hint, sort=INT):
        self.nfresh += 1
        return z3.Const("%s!%d" % (hint, self.nfresh), sort)

    def fresh_str(self, hint, is_bytes=False):
        n = self.fresh(hint + ".len")
        a = self.fresh(hint + ".arr", ARR)
        self.assume(n >= 0)
        return SStr(n, a, z3.IntVal(0), is_bytes=is_bytes)

    def assume(self, e):
        if e is True:
            return
        if e is False:
            e = z3.BoolVal(False)
        self.pc.append(e)
        if self._solver is not None:
            self._solver.add(e)

    def inc_solver(self):
        """incremental solver holding the path condition and the ghost axioms instantiated so far"""
        if self._solver is None:
            self._solver = z3.Solver()
            for p in self.pc:
                self._solver.add(p)
            self._ax_added = set()
        for a in self.axioms():
            k = a.get_id()
            if k not in self._ax_added:
                self._ax_added.add(k)
                self._solver.add(a)
        return self._solver

    def axioms(self):
        return self.reg.axioms()

    def feasible(self, extra):
        # a fresh solver per query: z3's incremental mode (push/pop) skips its preprocessing and measured
        # 2x slower on these obligations
        s = z3.Solver()
        s.set("timeout", self.engine.feas_timeout_ms)
        for p in self.pc:
            s.add(p)
        for a in self.axioms():
            s.add(a)
        s.add(extra)
        r = s.check()
        self.engine.stats["feas_checks"] += 1
        return r != z3.unsat

    def branch(self, cond):
        """Decide a symbolic condition on this path; returns a Python bool."""
        if isinstance(cond, bool):
            return cond
        c = z3.simplify(cond)
        if z3.is_true(c):
            return True
        if z3.is_false(c):
            return False
        i = len(self.taken)
        if i < len(self.decisions):
            ch = self.decisions[i]
        else:
            ft = self.feasible(c)
            ff = self.feasible(z3.Not(c))
            if ft and ff:
                ch = True
                self.alternatives.append(self.taken + [False])
            elif ft:
                ch = True
            elif ff:
                ch = False
            else:
                raise Infeasible()
            self.decisions.append(ch)
        self.taken.append(ch)
        self.assume(c if ch else z3.Not(c))
        return ch

    def concretize(self, e):
        """If the path condition pins the Int term e to one value, return it (else None)."""
        e = z3.simplify(e)
        if z3.is_int_value(e):
            return e.as_long()
        s = self.inc_solver()
        s.set("timeout", self.engine.feas_timeout_ms)
        if s.check() != z3.sat:
            return None
        v = s.model().eval(e, model_completion=True)
        if not z3.is_int_value(v):
            return None
        s.push()
        try:
            s.add(e != v)
            r = s.check()
        finally:
            s.pop()
        if r == z3.unsat:
            return v.as_long()
        return None

    def emit(self, kind, label, goal, line=None, note=""):
        if isinstance(goal, bool):
            goal = z3.BoolVal(goal)
        vc = VC(kind, label, list(self.pc), goal, line, note)
        # first attempt on the incremental solver (same formulas: pc + instantiated axioms + not goal);
        # anything but unsat is re-decided on a fresh solver (and cvc5) after the path ends
        if self.engine.solve_inline and not z3.is_true(z3.simplify(goal)):
            import time as _t
            t0 = _t.time()
            s = self.inc_solver()
            s.set("timeout", self.engine.timeout_ms)
            s.push()
            try:
                s.add(z3.Not(goal))
                r = s.check()
            finally:
                s.pop()
            if r == z3.unsat:
                vc.pre = {"verdict": "proved", "backend": "z3", "ms": round((_t.time() - t0) * 1000, 1)}
        self.vcs.append(vc)
        self.assume(goal)


# --------------------------------------------------------------------------
# helpers on values

def zint(v):
    if isinstance(v, bool):
        return z3.IntVal(1 if v else 0)
    if isinstance(v, int):
        return z3.IntVal(v)
    if isinstance(v, SInt):
        return v.e
    if isinstance(v, SBool):
        return z3.If(v.e, z3.IntVal(1), z3.IntVal(0))
    raise Unsupported("not an int: %r" % (v,))


def zreal(v):
    if isinstance(v, bool):
        return z3.RealVal(1 if v else 0)
    if isinstance(v, int):
        return z3.RealVal(v)
    if isinstance(v, float):
        from fractions import Fraction
        f = Fraction(v)
        return z3.RealVal(f.numerator) / z3.RealVal(f.denominator)
    if isinstance(v, SInt):
        return z3.ToReal(v.e)
    if isinstance(v, SReal):
        return v.e
    if isinstance(v, SBool):
        return z3.If(v.e, z3.RealVal(1), z3.RealVal(0))
    raise Unsupported("not a number: %r" % (v,))


def is_intlike(v):
    return isinstance(v, (int, SInt, SBool)) and not isinstance(v, float)


def is_numlike(v):
    return isinstance(v, (int, float, SInt, SBool, SReal))


def is_strlike(v):
    return isinstance(v, (str, bytes, SStr))


def mk_int(e):
    e = z3.simplify(e)
    if z3.is_int_value(e):
        return e.as_long()
    return SInt(e)


def mk_bool(e):
    if isinstance(e, bool):
        return e
    e = z3.simplify(e)
    if z3.is_true(e):
        return True
    if z3.is_false(e):
        return False
    return SBool(e)


def mk_real(e):
    e = z3.simplify(e)
    if z3.is_rational_value(e):
        n, d = e.numerator_as_long(), e.denominator_as_long()
        if d == 1:
            return float(n)
    return SReal(e)


def as_sstr(v):
    if isinstance(v, SStr):
        return v
    if isinstance(v, (str, bytes)):
        return sstr_of(v)
    raise Unsupported("not a string: %r" % (v,))


def try_concrete_str(s):
    """SStr -> python str if fully determined, else None."""
    if not isinstance(s, SStr):
        return s
    n = s.known_len()
    if n is None:
        return None
    out = []
    for i in range(n):
        c = z3.simplify(s.at(i))
        if not z3.is_int_value(c):
            return None
        out.append(c.as_long())
    if s.is_bytes:
        return bytes(out)
    try:
        return "".join(chr(x) for x in out)
    except ValueError:
        return None


def str_eq(a, b, ctx=None):
    """Python == on two strings -> z3 Bool (or bool).

    Two strings of unknown length: only as a positive proof goal, where the universally
    quantified position is skolemised (ctx.goal_mode is switched off under negations,
    conditions and antecedents by the evaluator)."""
    if isinstance(a, (str, bytes)) and isinstance(b, (str, bytes)):
        return a == b
    a, b = as_sstr(a), as_sstr(b)
    na, nb = a.known_len(), b.known_len()
    if na is not None and nb is not None:
        if na != nb:
            return False
        return z3.And([a.at(i) == b.at(i) for i in range(na)]) if na else True
    if na is not None:
        a, b, na, nb = b, a, nb, na
    if nb is not None:
        return z3.And([a.length == nb] + [a.at(i) == b.at(i) for i in range(nb)])
    if a.arr.get_id() == b.arr.get_id() and z3.simplify(a.off).get_id() == z3.simplify(b.off).get_id():
        return a.length == b.length
    ma, mb = a.max_len(), b.max_len()
    if ma is not None or mb is not None:
        m = min(x for x in (ma, mb) if x is not None)
        # equal lengths imply the common length is <= m
        return z3.And([a.length == b.length] +
                      [z3.Implies(i < a.length, a.at(i) == b.at(i)) for i in range(m)])
    if ctx is not None and ctx.goal_mode:
        sk = ctx.fresh("sk_pos")
        return z3.And(a.length == b.length, z3.Implies(z3.And(sk >= 0, sk < a.length), a.at(sk) == b.at(sk)))
    # everywhere else (hypotheses, branch conditions in the code, negated positions) the pointwise fact is a
    # universally quantified formula of the array-property fragment; the solver skolemises it where it is negated
    i = z3.Int("q_i")
    body = z3.Implies(z3.And(i >= 0, i < a.length), a.at(i) == b.at(i))
    return z3.And(a.length == b.length, z3.ForAll([i], body))


MEMBER = z3.Function("intset_member", INT, INT, BOOL)


_UNBOUND = object()      # receiver placeholder of an unbound built-in method (str.lower, ...)


class TypeName(object):
    """A python builtin type used as a value (isinstance targets, constructors)."""

    def __init__(self, t):
        self.t = t


_BUILTIN_TYPES = (int, str, float, bool, list, tuple, dict, set, bytes, object, type(None))


# --------------------------------------------------------------------------

class Frame(object):
    def __init__(self, fref, env, module, closure=None, spec=False):
        self.fref = fref
        self.env = env
        self.module = module
        self.closure = closure or []
        self.spec = spec
        self.loop_ord = {}
        if fref is not None and fref.node is not None:
            n = 0
            for node in _walk_no_nested(fref.node):
                if isinstance(node, (ast.For, ast.While)):
                    n += 1
                    self.loop_ord[id(node)] = n


def _simple_test(e):
    """a comparison (or negation / conjunction of such) whose operands are names, numbers and + - of those"""
    def atom(x):
        if isinstance(x, (ast.Name, ast.Constant)):
            return not isinstance(x, ast.Constant) or isinstance(x.value, (int, float, bool))
        if isinstance(x, ast.BinOp) and isinstance(x.op, (ast.Add, ast.Sub)):
            return atom(x.left) and atom(x.right)
        if isinstance(x, ast.UnaryOp) and isinstance(x.op, ast.USub):
            return atom(x.operand)
        return False
    if isinstance(e, ast.Compare):
        return all(isinstance(o, (ast.Lt, ast.LtE, ast.Gt, ast.GtE, ast.Eq, ast.NotEq)) for o in e.ops) and \
            atom(e.left) and all(atom(c) for c in e.comparators)
    if isinstance(e, ast.UnaryOp) and isinstance(e.op, ast.Not):
        return _simple_test(e.operand)
    if isinstance(e, ast.BoolOp):
        return all(_simple_test(v) for v in e.values)
    return False


def local_names(fn):
    """names bound inside a function (not its parameters), in order of first binding: what loop annotations may mention"""
    seen, params = [], set()
    if isinstance(fn, (ast.FunctionDef, ast.Lambda)):
        a = fn.args
        params = set(x.arg for x in a.posonlyargs + a.args + a.kwonlyargs) | \
            set(x.arg for x in (a.vararg, a.kwarg) if x is not None)

    def add(t):
        for n in ast.walk(t):
            if isinstance(n, ast.Name) and n.id not in params and n.id not in seen:
                seen.append(n.id)
    for node in _walk_no_nested(fn):
        if isinstance(node, ast.Assign):
            for t in node.targets:
                add(t) if not isinstance(t, (ast.Attribute, ast.Subscript)) else None
        elif isinstance(node, (ast.AugAssign, ast.AnnAssign)):
            add(node.target) if isinstance(node.target, ast.Name) else None
        elif isinstance(node, ast.For):
            add(node.target)
    return seen


def rename_idents(x, ren):
    """apply a renaming of local names to annotation text (attribute names are left alone)"""
    if isinstance(x, str):
        return re.sub(r"(?<![\w.])([A-Za-z_]\w*)\b", lambda m: ren.get(m.group(1), m.group(1)), x)
    if isinstance(x, dict):
        return {(rename_idents(k, ren) if isinstance(k, str) else k): rename_idents(v, ren) for k, v in x.items()}
    if isinstance(x, (list, tuple)):
        return type(x)(rename_idents(v, ren) for v in x)
    return x


def loop_header(node):
    """the text a loop annotation is bound to"""
    if isinstance(node, ast.While):
        return "while " + ast.unparse(node.test)
    return "for _ in %s" % ast.unparse(node.iter)     # the name of the loop variable is immaterial


def _walk_no_nested(fn):
    """Source-order walk of a function body without entering nested defs/lambdas."""
    stack = list(reversed(fn.body)) if hasattr(fn, "body") and isinstance(fn.body, list) else [fn.body]
    while stack:
        node = stack.pop()
        yield node
        if isinstance(node, (ast.FunctionDef, ast.Lambda, ast.ClassDef)):
            continue
        children = list(ast.iter_child_nodes(node))
        stack.extend(reversed(children))


def assigned_names(stmts):
    out = set()

    def tgt(t):
        if isinstance(t, ast.Name):
            out.add(t.id)
        elif isinstance(t, (ast.Tuple, ast.List)):
            for e in t.elts:
                tgt(e)

    class V(ast.NodeVisitor):
        def visit_FunctionDef(self, node):
            out.add(node.name)

        def visit_Lambda(self, node):
            pass

        def visit_Assign(self, node):
            for t in node.targets:
                tgt(t)
            self.generic_visit(node)

        def visit_AugAssign(self, node):
            tgt(node.target)
            self.generic_visit(node)

        def visit_For(self, node):
            tgt(node.target)
            self.generic_visit(node)

    v = V()
    for s in stmts:
        v.visit(s)
    return out


class Exec(object):
    """Interpreter for one path."""

    def __init__(self, engine, ctx, concrete=False):
        self.engine = engine
        self.ctx = ctx
        self.concrete = concrete   # cross-check mode: inline everything, no contracts
        self.frames = []
        self.top_fq = None
        self.depth = 0

    # ------------------------------------------------------------ names
    @property
    def frame(self):
        return self.frames[-1]

    def lookup(self, name, line=None):
        f = self.frame
        if name in f.env:
            return f.env[name]
        for env in f.closure:
            if name in env:
                return env[name]
        if f.spec:
            v = self.engine.spec_lookup(name)
            if v is not None:
                return v
        if f.module is not None:
            mv = self.ctx.__dict__.get("module_vars", {})
            if (f.module, name) in mv:
                return mv[(f.module, name)]
            mod = self.engine.module(f.module)
            if hasattr(mod, name):
                if not f.spec and name in self.engine.rebound_globals(f.module):
                    # some function rebinds this module variable (global statement): its value at entry is what an
                    # earlier call left, i.e. unknown, unless the contract's case split says what it holds
                    v = SInt(self.ctx.fresh("modvar_" + name))
                    mv = self.ctx.__dict__.setdefault("module_vars", {})
                    mv[(f.module, name)] = v
                    self.ctx.tags.add("module variable %s.%s is rebound by the code: unknown at entry" % (f.module, name))
                    return v
                return self.wrap(getattr(mod, name), "module:%s.%s" % (f.module, name))
        import builtins
        if hasattr(builtins, name):
            return self.wrap(getattr(builtins, name), None)
        if f.spec:
            raise Unsupported("unknown name in contract: %s" % name)
        raise Raised(NameError, line, implicit=True, note=name)

    def wrap(self, v, origin):
        """Real Python value (module constant, function, class) -> interpreter value."""
        if v is None or isinstance(v, (bool, int, float, str, bytes)):
            return v
        key = id(v)
        wc = self.ctx.wrap_cache
        if key in wc:
            return wc[key][0]
        if isinstance(v, tuple):
            r = tuple(self.wrap(x, origin) for x in v)
        elif isinstance(v, list):
            r = PList([], origin)
            wc[key] = (r, v)
            r.items = [self.wrap(x, origin) for x in v]
            return r
        elif isinstance(v, dict):
            r = PDict({}, origin)
            wc[key] = (r, v)
            r.d = dict((k, self.wrap(x, origin)) for k, x in v.items())
            return r
        elif isinstance(v, (set, frozenset)):
            r = PSet([self.wrap(x, origin) for x in sorted(v, key=repr)], origin)
        elif isinstance(v, types.ModuleType):
            r = ModuleRef(v)
        elif isinstance(v, type):
            if v in _BUILTIN_TYPES or v is range:
                r = TypeName(v)
            elif v.__module__.startswith(("mingus", "contracts", "pyvc")) or issubclass(v, BaseException):
                r = ClassRef(v)
            else:
                r = Builtin(v.__name__, v)
        elif isinstance(v, types.FunctionType):
            r = self.engine.funcref_of(v)
        elif isinstance(v, types.MethodType):
            r = BoundMethod(self.wrap(v.__self__, origin), self.engine.funcref_of(v.__func__))
        elif isinstance(v, (types.BuiltinFunctionType, types.BuiltinMethodType)):
            r = Builtin(v.__name__, v)
        elif isinstance(v, range):
            r = v
        elif type(v).__module__.startswith("mingus"):
            r = Obj(type(v), {}, origin)
            wc[key] = (r, v)
            for k, x in vars(v).items():
                r.fields[k] = self.wrap(x, origin)
            return r
        else:
            r = Builtin(getattr(v, "__name__", repr(v)), v)
        wc[key] = (r, v)
        return r

    # ------------------------------------------------------------ truthiness
    def truth(self, v):
        """value -> python bool or z3 Bool"""
        if isinstance(v, SBool):
            return v.e
        if isinstance(v, SInt):
            return v.e != 0
        if isinstance(v, SReal):
            return v.e != 0
        if isinstance(v, SStr):
            return v.length != 0
        if isinstance(v, PList):
            return len(v.items) > 0
        if isinstance(v, SList):
            return v.length != 0
        if isinstance(v, PDict):
            return len(v.d) > 0
        if isinstance(v, PSet):
            return len(v.items) > 0
        if isinstance(v, Obj):
            m = self.find_method(v.cls, "__bool__") or self.find_method(v.cls, "__len__")
            if m is None:
                return True
            r = self.call(BoundMethod(v, m), [], {}, None)
            return self.truth(r)
        if isinstance(v, (FuncRef, BoundMethod, ClassRef, ModuleRef, Builtin, TypeName, NativeMethod)):
            return True
        return bool(v)

    def cond(self, v):
        """Decide truthiness: forks in code mode, returns z3/py bool in spec mode."""
        t = self.truth(v)
        if isinstance(t, bool):
            return t
        if self.frame.spec:
            return t
        return self.ctx.branch(t)

    # ------------------------------------------------------------ statements
    def exec_block(self, stmts):
        for s in stmts:
            self.exec_stmt(s)

    def exec_stmt(self, node):
        m = getattr(self, "st_" + type(node).__name__, None)
        if m is None:
            raise Unsupported("statement %s at line %s" % (type(node).__name__, getattr(node, "lineno", "?")))
        return m(node)

    def st_Expr(self, node):
        if isinstance(node.value, ast.Constant):
            return
        self.eval(node.value)

    def st_Pass(self, node):
        pass

    def st_Global(self, node):
        # names declared global: assigning them writes MODULE state (a frame matter), and what they hold when the
        # function starts is whatever an earlier call left there, not the import-time value
        self.frame.__dict__.setdefault("globals_decl", set()).update(node.names)

    def st_Import(self, node):
        for a in node.names:
            mod = importlib.import_module(a.name)
            if a.asname:
                self.frame.env[a.asname] = ModuleRef(mod)
            else:
                self.frame.env[a.name.split(".")[0]] = ModuleRef(importlib.import_module(a.name.split(".")[0]))

    def st_ImportFrom(self, node):
        mod = importlib.import_module(node.module)
        for a in node.names:
            self.frame.env[a.asname or a.name] = self.wrap(getattr(mod, a.name), "module:%s.%s" % (node.module, a.name))

    def st_Assert(self, node):
        if not self.cond(self.eval(node.test)):
            raise Raised(AssertionError, node.lineno)

    def st_Return(self, node):
        v = None if node.value is None else self.eval(node.value)
        raise ReturnSig(v)

    def st_Break(self, node):
        raise BreakSig()

    def st_Continue(self, node):
        raise ContinueSig()

    def st_Raise(self, node):
        if node.exc is None:
            raise Unsupported("bare raise")
        e = node.exc
        if isinstance(e, ast.Call):
            f = self.eval(e.func)
            # the message is opaque, but building it must not itself fail (arity of %-formatting, unbound names)
            for a in e.args:
                try:
                    self.eval(a)
                except Unsupported:
                    pass
        else:
            f = self.eval(e)
        if isinstance(f, ClassRef):
            raise Raised(f.cls, node.lineno)
        if isinstance(f, Builtin) and isinstance(f.py, type):
            raise Raised(f.py, node.lineno)
        if isinstance(f, ExcValue):
            raise Raised(f.cls, node.lineno)
        raise Unsupported("raise of %r" % (f,))

    def st_FunctionDef(self, node):
        fr = self.frame
        q = "%s.<locals>.%s" % (fr.fref.qualname, node.name) if fr.fref else node.name
        self.frame.env[node.name] = FuncRef(fr.module, q, node, closure=[fr.env] + fr.closure)

    def st_Assign(self, node):
        v = self.eval(node.value)
        for t in node.targets:
            self.assign(t, v)

    def st_AnnAssign(self, node):
        if node.value is not None:
            self.assign(node.target, self.eval(node.value))

    def st_AugAssign(self, node):
        cur = self.eval(node.target)
        v = self.binop(node.op, cur, self.eval(node.value), node.lineno, inplace=True)
        self.assign(node.target, v)

    def st_Delete(self, node):
        for t in node.targets:
            if isinstance(t, ast.Subscript) and isinstance(t.slice, ast.Slice) and t.slice.lower is None \
                    and t.slice.upper is None and t.slice.step is None:
                # del xs[:] empties the SAME list object (whoever else holds it sees it emptied)
                base = self.eval(t.value)
                if isinstance(base, PList):
                    self.note_write(base)
                    base.items[:] = []
                    continue
                if isinstance(base, SList):
                    self.note_write(base)
                    base.length = z3.IntVal(0)
                    continue
                raise Unsupported("del form at line %d" % node.lineno)
            if isinstance(t, ast.Subscript):
                base = self.eval(t.value)
                idx = self.eval(t.slice)
                if isinstance(base, PDict):
                    self.note_write(base)
                    k = self.dict_key(idx)
                    if k not in base.d:
                        raise Raised(KeyError, node.lineno, implicit=True)
                    del base.d[k]
                    continue
                if isinstance(base, PList) and isinstance(idx, int):
                    self.note_write(base)
                    try:
                        del base.items[idx]
                    except IndexError:
                        raise Raised(IndexError, node.lineno, implicit=True)
                    continue
            raise Unsupported("del form at line %d" % node.lineno)

    def assign(self, t, v):
        if isinstance(t, ast.Name) and t.id in self.frame.__dict__.get("globals_decl", ()):
            origin = "module:%s.%s" % (self.frame.module, t.id)
            self.ctx.writes.append(origin)
            self.ctx.__dict__.setdefault("module_vars", {})[(self.frame.module, t.id)] = v
            from .engine import taint
            taint(v, origin)
        elif isinstance(t, ast.Name):
            self.frame.env[t.id] = v
        elif isinstance(t, (ast.Tuple, ast.List)):
            items = self.iter_concrete(v, t.lineno)
            if len(items) != len(t.elts):
                raise Raised(ValueError, t.lineno, implicit=True)
            for e, x in zip(t.elts, items):
                self.assign(e, x)
        elif isinstance(t, ast.Attribute):
            o = self.eval(t.value)
            if isinstance(o, Obj):
                setter = self.find_property(o.cls, t.attr)
                if setter is not None and setter[1] is not None:
                    self.call(BoundMethod(o, setter[1]), [v], {}, t.lineno)
                    return
                self.note_write(o)
                o.fields[t.attr] = v
            else:
                raise Unsupported("attribute assignment on %r" % (o,))
        elif isinstance(t, ast.Subscript):
            o = self.eval(t.value)
            if isinstance(t.slice, ast.Slice):
                sl = t.slice
                b = [None if x is None else self.eval(x) for x in (sl.lower, sl.upper, sl.step)]
                if isinstance(o, PList) and all(x is None or (isinstance(x, int) and not isinstance(x, bool)) for x in b) \
                        and isinstance(v, (PList, tuple)):
                    self.note_write(o)
                    new = list(v.items) if isinstance(v, PList) else list(v)
                    items = list(o.items)
                    try:
                        items[slice(*b)] = new
                    except ValueError:
                        raise Raised(ValueError, t.lineno, implicit=True)
                    o.items = items
                    return
                raise Unsupported("slice assignment on %r" % (o,))
            idx = self.eval(t.slice)
            self.setitem(o, idx, v, t.lineno)
        else:
            raise Unsupported("assignment target %s" % type(t).__name__)

    def note_write(self, o, stored=None):
        origin = getattr(o, "origin", None)
        if origin is not None:
            self.ctx.writes.append(origin)
            if stored is not None and origin.startswith("module:"):
                # a value stored into module state is module state from now on (it escapes the call)
                from .engine import taint
                taint(stored, origin + "[stored]")

    def setitem(self, o, idx, v, line):
        if isinstance(o, PList):
            self.note_write(o)
            if isinstance(idx, int):
                n = len(o.items)
                if not (-n <= idx < n):
                    raise Raised(IndexError, line, implicit=True)
                o.items[idx] = v
                return
            if isinstance(idx, SInt):
                n = len(o.items)
                ok = z3.And(idx.e >= -n, idx.e < n)
                if not self.ctx.branch(ok):
                    raise Raised(IndexError, line, implicit=True)
                pos = z3.If(idx.e < 0, idx.e + n, idx.e)
                o.items = [self.merge(pos == i, v, o.items[i]) for i in range(n)]
                return
        if isinstance(o, PDict):
            self.note_write(o, stored=v)
            try:
                k = self.dict_key(idx)
            except Unsupported:
                # which row is written is beyond the model, THAT shared state is written is not: if the contract's frame
                # does not allow it, that obligation fails here (the rest of the path stays undecided)
                origin = getattr(o, "origin", None)
                topc = self.engine.contracts.get(self.top_fq) if getattr(self, "top_fq", None) else None
                if origin is not None and origin.startswith("module:") and topc is not None and len(self.frames) == 1:
                    allowed = set(topc.get("modifies") or [])
                    if origin not in allowed and not any(origin.startswith(a + ".") for a in allowed):
                        self.ctx.emit("frame", "frame/writes-outside-modifies", False, line,
                                      note="writes to %s (under a key the model cannot follow)" % origin)
                raise
            o.d[k] = v
            return
        if isinstance(o, Obj):
            m = self.find_method(o.cls, "__setitem__")
            if m is not None:
                self.call(BoundMethod(o, m), [idx, v], {}, line)
                return
        raise Unsupported("item assignment on %r[%r]" % (o, idx))

    def dict_key(self, k):
        if isinstance(k, SStr):
            c = try_concrete_str(k)
            if c is None:
                raise Unsupported("symbolic dict key in store")
            return c
        if isinstance(k, (SInt, SBool, SReal)):
            raise Unsupported("symbolic dict key in store")
        return k

    def st_If(self, node):
        if self.cond(self.eval(node.test)):
            self.exec_block(node.body)
        else:
            self.exec_block(node.orelse)

    def st_Try(self, node):
        if node.finalbody:
            raise Unsupported("try/finally")
        try:
            self.exec_block(node.body)
        except Raised as r:
            for h in node.handlers:
                if h.type is None:
                    match = True
                else:
                    tv = self.eval(h.type)
                    match = self.exc_matches(r.cls, tv)
                if match:
                    if h.name:
                        self.frame.env[h.name] = ExcValue(r.cls)
                    self.exec_block(h.body)
                    return
            raise
        else:
            self.exec_block(node.orelse)

    def exc_matches(self, cls, tv):
        if isinstance(tv, tuple):
            return any(self.exc_matches(cls, x) for x in tv)
        if isinstance(tv, ClassRef):
            return isinstance(cls, type) and issubclass(cls, tv.cls)
        if isinstance(tv, Builtin) and isinstance(tv.py, type):
            return isinstance(cls, type) and issubclass(cls, tv.py)
        raise Unsupported("except clause type %r" % (tv,))

    # ------------------------------------------------------------ loops
    def loop_spec(self, node):
        fr = self.frame
        if self.concrete:
            return None
        c = self.engine.contracts.get(fr.fref.fq) if fr.fref is not None else None
        if fr.fref is not None and self.top_fq and self.top_fq.split("#")[0] == fr.fref.fq:
            c = self.engine.contracts.get(self.top_fq)     # the typing variant under verification
        if c is None:
            return None
        spec = (c.get("loops") or {}).get(fr.loop_ord.get(id(node)))
        if spec is not None:
            rec = self.engine.loop_headers.get(fr.fref.fq, {})
            want = rec.get(str(fr.loop_ord.get(id(node))))
            have = loop_header(node)
            was, now = rec.get("locals"), local_names(fr.fref.node)
            if was is not None and was != now and len(was) == len(now):
                # locals were renamed: annotations follow the renaming (same binding order).  Invariants are proof
                # hints, so a wrong guess here can only leave obligations unproved, never prove a false one.
                ren = {a: b for a, b in zip(was, now) if a != b}
                spec = rename_idents(spec, ren)
                want = rename_idents(want, ren) if want is not None else None
            if want is not None and want != have:
                raise Unsupported("loop %s of %s was rewritten ('%s' is now '%s'): its invariant is bound to the old "
                                  "loop and no longer applies" % (fr.loop_ord.get(id(node)), fr.fref.fq, want, have))
        return spec

    def st_While(self, node):
        spec = self.loop_spec(node)
        if spec is None:
            # concrete unrolling (bounded by engine.max_unroll)
            n = 0
            nsym = 0
            while True:
                tv = self.truth(self.eval(node.test))
                if not isinstance(tv, bool):
                    # a loop without an invariant whose test is symbolic: every turn forks the path.  A few turns are
                    # explored (bounded loops over small symbolic counters), then the function is undecided
                    nsym += 1
                    if nsym > 12:
                        raise Unsupported("while loop at line %d has a symbolic test and no invariant" % node.lineno)
                if not (tv if isinstance(tv, bool) else self.ctx.branch(tv) if not self.frame.spec else tv):
                    self.exec_block(node.orelse)
                    return
                try:
                    self.exec_block(node.body)
                except BreakSig:
                    return
                except ContinueSig:
                    pass
                n += 1
                if n > self.engine.max_unroll:
                    raise Unsupported("while loop at line %d without invariant exceeded unroll bound" % node.lineno)
        self.cut_loop(node, spec, None)

    def st_For(self, node):
        spec = self.loop_spec(node)
        it = self.eval(node.iter)
        if spec is None or not self.is_symbolic_iter(it):
            items = self.iter_concrete(it, node.lineno)
            broke = False
            for x in items:
                self.assign(node.target, x)
                try:
                    self.exec_block(node.body)
                except BreakSig:
                    broke = True
                    break
                except ContinueSig:
                    pass
            if not broke:
                self.exec_block(node.orelse)
            return
        self.cut_loop(node, spec, it)

    def is_symbolic_iter(self, it):
        if isinstance(it, SStr):
            return it.known_len() is None
        if isinstance(it, SList):
            return True
        if isinstance(it, RangeVal):
            return True
        return False

    def iter_concrete(self, it, line):
        """Elements of a finite iterable of known length."""
        if isinstance(it, PList):
            return list(it.items)
        if isinstance(it, PIter):
            return list(it.items)
        if isinstance(it, tuple):
            return list(it)
        if isinstance(it, str):
            return list(it)
        if isinstance(it, bytes):
            return list(it)
        if isinstance(it, range):
            if len(it) > self.engine.max_unroll:
                raise Unsupported("range too long to unroll")
            return list(it)
        if isinstance(it, PDict):
            return list(it.d.keys())
        if isinstance(it, PSet):
            return list(it.items)
        if isinstance(it, SStr):
            n = it.known_len()
            if n is not None:
                return [char_sstr(it.at(i)) if not it.is_bytes else mk_int(it.at(i)) for i in range(n)]
            raise Unsupported("iteration over a string of unknown length without an invariant (line %s)" % line)
        if isinstance(it, Obj):
            # old-style iteration protocol via __getitem__ until IndexError (Bar, Track ...)
            m = self.find_method(it.cls, "__iter__")
            if m is not None:
                raise Unsupported("__iter__ protocol")
            g = self.find_method(it.cls, "__getitem__")
            if g is not None:
                out = []
                i = 0
                while True:
                    try:
                        out.append(self.call(BoundMethod(it, g), [i], {}, line))
                    except Raised as r:
                        if r.cls is IndexError:
                            break
                        raise
                    i += 1
                    if i > self.engine.max_unroll:
                        raise Unsupported("object iteration too long")
                return out
        if isinstance(it, (SList, RangeVal)):
            raise Unsupported("iteration over a sequence of unknown length without an invariant (line %s)" % line)
        raise Raised(TypeError, line, implicit=True, note="not iterable: %r" % (it,))

    def cut_loop(self, node, spec, it):
        """Loop with invariant.  `it` is None for while loops."""
        ctx = self.ctx
        fr = self.frame
        ordn = fr.loop_ord[id(node)]
        tag = "L%d" % ordn
        env = fr.env
        mod = assigned_names(node.body)
        if it is not None:
            mod |= assigned_names([ast.Assign(targets=[node.target], value=ast.Constant(value=None))])
        kname = spec.get("index", "k")
        invs = spec.get("inv")
        if isinstance(invs, str):
            invs = [("inv", invs)]
        # ---- entry
        if it is not None:
            env[kname] = 0
            seqlen = self.seq_len(it)
        ghosts = spec.get("ghost") or {}
        for g, expr in ghosts.items():
            env[g] = self.spec_eval(expr, env)
        for (nm, e) in invs:
            ctx.emit("inv-init", "%s/%s/init" % (tag, nm), self.spec_bool(e, env, goal=True), node.lineno)
        # ---- havoc
        types_ = spec.get("types") or {}
        loopvars = set()
        if it is not None:
            lv = assigned_names([ast.Assign(targets=[node.target], value=ast.Constant(value=None))])
            loopvars = lv
        for name in sorted(mod):
            if name in loopvars and name not in types_:
                env.pop(name, None)
                continue
            if name in types_:
                env[name] = self.fresh_of_type(types_[name], name)
            elif name in env:
                env[name] = self.havoc_like(env[name], name)
        if it is not None:
            k = ctx.fresh(kname)
            ctx.assume(z3.And(k >= 0, k <= seqlen))
            env[kname] = mk_int(k)
        ctx.hyp_mode = True
        try:
            for (nm, e) in invs:
                ctx.assume(self.spec_bool(e, env))
        finally:
            ctx.hyp_mode = False
        dec = spec.get("decreases")
        v0 = None
        if dec:
            v0 = zint(self.spec_eval(dec, env))
        # ---- guard
        if it is not None:
            go = ctx.branch(k < seqlen)
        else:
            go = self.cond(self.eval(node.test))
        if not go:
            if it is not None:
                env.pop(kname, None)
            self.exec_block(node.orelse)
            return
        if it is not None:
            self.assign(node.target, self.seq_at(it, k))
        try:
            self.exec_block(node.body)
        except ContinueSig:
            pass
        except BreakSig:
            if it is not None:
                env.pop(kname, None)
            return
        if it is not None:
            env[kname] = mk_int(k + 1)
        for (nm, e) in invs:
            ctx.emit("inv-step", "%s/%s/step" % (tag, nm), self.spec_bool(e, env, goal=True), node.lineno)
        if dec:
            v1 = zint(self.spec_eval(dec, env))
            ctx.emit("decr", "%s/decreases" % tag, z3.And(v0 >= 0, v1 < v0), node.lineno)
        raise PathCut()

    def seq_len(self, it):
        if isinstance(it, SStr):
            return it.length
        if isinstance(it, SList):
            return it.length
        if isinstance(it, RangeVal):
            return ghost.zmax0(zint(it.hi) - zint(it.lo))
        raise Unsupported("seq_len")

    def seq_at(self, it, k):
        if isinstance(it, SStr):
            self.ctx.reg.note_select(it.arr, it.off + k)
            if it.is_bytes:
                return mk_int(it.at(k))
            return char_sstr(it.at(k))
        if isinstance(it, RangeVal):
            return mk_int(zint(it.lo) + k)
        if isinstance(it, SList):
            return self.engine.slist_elem(self, it, k)
        raise Unsupported("seq_at")

    def havoc_like(self, v, name):
        ctx = self.ctx
        if isinstance(v, bool) or isinstance(v, SBool):
            return SBool(ctx.fresh(name, BOOL))
        if isinstance(v, int) or isinstance(v, SInt):
            return SInt(ctx.fresh(name))
        if isinstance(v, float) or isinstance(v, SReal):
            ctx.tags.add("float-as-real")
            return SReal(ctx.fresh(name, REAL))
        if isinstance(v, (str, SStr)):
            return ctx.fresh_str(name)
        if isinstance(v, bytes):
            return ctx.fresh_str(name, is_bytes=True)
        raise Unsupported("cannot havoc loop variable %s of value %r (give it a type in the loop spec)" % (name, v))

    def fresh_of_type(self, t, name):
        return self.engine.fresh_of_type(self, t, name)

    # ------------------------------------------------------------ spec evaluation
    def spec_eval(self, expr, env):
        """Evaluate a contract expression (string) without forking."""
        node = self.engine.parse_expr(expr)
        self.frames.append(Frame(None, env, None, spec=True))
        try:
            return self.eval(node)
        finally:
            self.frames.pop()

    def spec_bool(self, expr, env, goal=False):
        old = self.ctx.goal_mode
        self.ctx.goal_mode = goal
        try:
            v = self.spec_eval(expr, env)
        finally:
            self.ctx.goal_mode = old
        t = self.truth(v)
        if isinstance(t, bool):
            return z3.BoolVal(t)
        return t

    # ------------------------------------------------------------ expressions
    def eval(self, node):
        m = getattr(self, "ev_" + type(node).__name__, None)
        if m is None:
            raise Unsupported("expression %s at line %s" % (type(node).__name__, getattr(node, "lineno", "?")))
        return m(node)

    def ev_Constant(self, node):
        return node.value

    def ev_Name(self, node):
        return self.lookup(node.id, getattr(node, "lineno", None))

    def ev_Tuple(self, node):
        return tuple(self.eval(e) for e in node.elts)

    def ev_List(self, node):
        return PList([self.eval(e) for e in node.elts])

    def ev_Set(self, node):
        return PSet([self.eval(e) for e in node.elts])

    def ev_Dict(self, node):
        d = {}
        for k, v in zip(node.keys, node.values):
            d[self.dict_key(self.eval(k))] = self.eval(v)
        return PDict(d)

    def ev_Lambda(self, node):
        fr = self.frame
        q = "%s.<locals>.<lambda>" % (fr.fref.qualname if fr.fref else "")
        return FuncRef(fr.module, q, node, closure=[fr.env] + fr.closure)

    def ev_IfExp(self, node):
        gm = self.ctx.goal_mode
        self.ctx.goal_mode = False
        try:
            c = self.eval(node.test)
        finally:
            self.ctx.goal_mode = gm
        t = self.truth(c)
        if isinstance(t, bool):
            return self.eval(node.body if t else node.orelse)
        if self.frame.spec:
            return self.merge(t, self.eval(node.body), self.eval(node.orelse))
        if self.ctx.branch(t):
            return self.eval(node.body)
        return self.eval(node.orelse)

    def ev_BoolOp(self, node):
        is_and = isinstance(node.op, ast.And)
        if self.frame.spec:
            # spec mode: total, pure -> build And/Or (short-circuit kept for concrete prefixes)
            acc = []
            last = None
            for e in node.values:
                v = self.eval(e)
                t = self.truth(v)
                last = v
                if isinstance(t, bool):
                    if is_and and not t:
                        return v if not acc else False
                    if (not is_and) and t:
                        return v if not acc else True
                    continue
                acc.append(t)
            if not acc:
                return last
            return mk_bool(z3.And(acc) if is_and else z3.Or(acc))
        if all(_simple_test(e) for e in node.values):
            # comparisons of plain names and constants cannot raise or have effects: short-circuiting is unobservable,
            # so the operands are combined into one condition instead of forking the path at each of them
            try:
                vals = [self.eval(e) for e in node.values]
            except Raised:
                vals = [None]       # (an unbound name, say): evaluate operand by operand as Python does
            if all(isinstance(x, (bool, SBool)) for x in vals):
                ts = [self.truth(x) for x in vals]
                if any(isinstance(t, bool) and t != is_and for t in ts):
                    return not is_and
                acc = [t for t in ts if not isinstance(t, bool)]
                if not acc:
                    return is_and
                return mk_bool(z3.And(acc) if is_and else z3.Or(acc))
        v = None
        for i, e in enumerate(node.values):
            v = self.eval(e)
            if i == len(node.values) - 1:
                return v
            t = self.cond(v)
            if is_and and not t:
                return v if not is_sym(v) else False
            if (not is_and) and t:
                return v if not is_sym(v) else True
        return v

    def ev_UnaryOp(self, node):
        if isinstance(node.op, ast.Not):
            gm = self.ctx.goal_mode
            self.ctx.goal_mode = False
            try:
                v = self.eval(node.operand)
            finally:
                self.ctx.goal_mode = gm
        else:
            v = self.eval(node.operand)
        if isinstance(node.op, ast.Not):
            t = self.truth(v)
            if isinstance(t, bool):
                return not t
            return mk_bool(z3.Not(t))
        if isinstance(node.op, ast.USub):
            if isinstance(v, (int, float)) and not isinstance(v, bool):
                return -v
            if isinstance(v, SReal):
                return SReal(-v.e)
            return mk_int(-zint(v))
        if isinstance(node.op, ast.UAdd):
            return v
        raise Unsupported("unary op")

    def ev_BinOp(self, node):
        return self.binop(node.op, self.eval(node.left), self.eval(node.right), node.lineno)

    def ev_Compare(self, node):
        # an operand that is itself a truth value occurs in BOTH polarities under == / != (an equivalence): nothing
        # inside it may be skolemised as if it were a positive goal
        def _boolish(x):
            return isinstance(x, (ast.Compare, ast.BoolOp, ast.IfExp, ast.Call)) or \
                isinstance(x, ast.UnaryOp) and isinstance(x.op, ast.Not)
        gm = self.ctx.goal_mode
        if gm and any(isinstance(o, (ast.Eq, ast.NotEq, ast.Is, ast.IsNot)) for o in node.ops) and \
                any(_boolish(x) for x in [node.left] + list(node.comparators)):
            self.ctx.goal_mode = False
            try:
                return self._ev_compare(node)
            finally:
                self.ctx.goal_mode = gm
        return self._ev_compare(node)

    def _ev_compare(self, node):
        left = self.eval(node.left)
        acc = []
        for op, rn in zip(node.ops, node.comparators):
            right = self.eval(rn)
            r = self.compare(op, left, right, node.lineno)
            if isinstance(r, bool):
                if not r:
                    return False
            else:
                acc.append(r)
                pure_rest = all(isinstance(c, (ast.Name, ast.Constant)) for c in node.comparators)
                if not self.frame.spec and len(node.ops) > 1 and not pure_rest:
                    # later comparators are evaluated only if this comparison holds
                    if not self.ctx.branch(r):
                        return False
                    acc.pop()
            left = right
        if not acc:
            return True
        return mk_bool(z3.And(acc) if len(acc) > 1 else acc[0])

    def ev_Attribute(self, node):
        o = self.eval(node.value)
        return self.getattr(o, node.attr, node.lineno)

    def ev_Subscript(self, node):
        o = self.eval(node.value)
        if isinstance(node.slice, ast.Slice):
            lo = None if node.slice.lower is None else self.eval(node.slice.lower)
            hi = None if node.slice.upper is None else self.eval(node.slice.upper)
            st = None if node.slice.step is None else self.eval(node.slice.step)
            if isinstance(o, Obj) and all(x is None or isinstance(x, int) for x in (lo, hi, st)):
                m = self.find_method(o.cls, "__getitem__")
                if m is not None:
                    return self.call(BoundMethod(o, m), [slice(lo, hi, st)], {}, node.lineno)
            return self.getslice(o, lo, hi, st, node.lineno)
        idx = self.eval(node.slice)
        return self.getitem(o, idx, node.lineno)

    def ev_ListComp(self, node, precomputed=None):
        if len(node.generators) != 1:
            raise Unsupported("nested comprehension")
        g = node.generators[0]
        items = self.iter_concrete(self.eval(g.iter) if precomputed is None else precomputed, node.lineno)
        out = []
        fr = self.frame
        saved = dict(fr.env)
        for x in items:
            self.assign(g.target, x)
            ok = True
            for c in g.ifs:
                cv = self.cond(self.eval(c))
                if not isinstance(cv, bool):
                    # a filter in a specification expression: mostly the path has already decided it (the code
                    # branched on the same fact); a filter that is still open would make the list's length symbolic
                    # -- is made a case distinction of the proof (the path forks on it like on a branch of the code)
                    cv = self.ctx.branch(cv)
                if not cv:
                    ok = False
                    break
            if ok:
                out.append(self.eval(node.elt))
        # comprehension scope: restore names bound by the target
        for nm in assigned_names([ast.Assign(targets=[g.target], value=ast.Constant(value=None))]):
            if nm in saved:
                fr.env[nm] = saved[nm]
            else:
                fr.env.pop(nm, None)
        return PList(out)

    def quantified_all(self, comp, g, rng):
        """all([body for j in range(lo, hi)]) with symbolic bounds: skolemised in a positive goal, a universally
        quantified hypothesis when assumed; anywhere else unsupported."""
        ctx = self.ctx
        lo, hi = zint(rng.lo), zint(rng.hi)
        env = self.frame.env
        saved = env.get(g.target.id, None)
        had = g.target.id in env
        try:
            if ctx.goal_mode:
                j = ctx.fresh("sk_" + g.target.id)
                env[g.target.id] = SInt(j)
                body = self.truth(self.eval(comp.elt))
                body = z3.BoolVal(body) if isinstance(body, bool) else body
                return mk_bool(z3.Implies(z3.And(j >= lo, j < hi), body))
            if getattr(ctx, "assume_mode", False) or getattr(ctx, "hyp_mode", False):
                ctx.nfresh += 1
                j = z3.Int("q_%s_%d" % (g.target.id, ctx.nfresh))
                env[g.target.id] = SInt(j)
                gm = ctx.goal_mode
                body = self.truth(self.eval(comp.elt))
                body = z3.BoolVal(body) if isinstance(body, bool) else body
                return SBool(z3.ForAll([j], z3.Implies(z3.And(j >= lo, j < hi), body)))
            raise Unsupported("quantified all() outside a goal or a hypothesis")
        finally:
            if had:
                env[g.target.id] = saved
            else:
                env.pop(g.target.id, None)

    def ev_GeneratorExp(self, node):
        r = self.ev_ListComp(node)
        return PIter(r.items)

    def ev_JoinedStr(self, node):
        parts = []
        for v in node.values:
            if isinstance(v, ast.Constant):
                parts.append(v.value)
            else:
                x = self.eval(v.value)
                if is_sym(x):
                    return self.opaque_str()
                parts.append(format(x))
        return "".join(parts)

    def opaque_str(self):
        s = self.ctx.fresh_str("opaque")
        s.opaque = True
        return s

    # ------------------------------------------------------------ operators
    def merge(self, c, a, b):
        """ite(c, a, b) on interpreter values."""
        if isinstance(c, bool):
            return a if c else b
        if a is b:
            return a
        if is_strlike(a) and is_strlike(b):
            if isinstance(a, (str, bytes)) and isinstance(b, (str, bytes)) and a == b:
                return a
            a, b = as_sstr(a), as_sstr(b)
            ma, mb = a.max_len(), b.max_len()
            return SStr(z3.If(c, a.length, b.length), z3.If(c, a.arr, b.arr), z3.If(c, a.off, b.off),
                        is_bytes=a.is_bytes, maxlen=max(ma, mb) if ma is not None and mb is not None else None)
        if isinstance(a, (bool, SBool)) and isinstance(b, (bool, SBool)):
            ta, tb = self.truth(a), self.truth(b)
            ta = z3.BoolVal(ta) if isinstance(ta, bool) else ta
            tb = z3.BoolVal(tb) if isinstance(tb, bool) else tb
            return mk_bool(z3.If(c, ta, tb))
        if is_intlike(a) and is_intlike(b):
            return mk_int(z3.If(c, zint(a), zint(b)))
        if is_numlike(a) and is_numlike(b):
            return mk_real(z3.If(c, zreal(a), zreal(b)))
        if a is None and b is None:
            return None
        if isinstance(a, tuple) and isinstance(b, tuple) and len(a) == len(b):
            return tuple(self.merge(c, x, y) for x, y in zip(a, b))
        if isinstance(a, PList) and isinstance(b, PList) and len(a.items) == len(b.items):
            return PList([self.merge(c, x, y) for x, y in zip(a.items, b.items)])
        raise Unsupported("cannot merge %r and %r" % (a, b))

    def binop(self, op, a, b, line, inplace=False):
        # ---- strings
        if is_strlike(a) and is_strlike(b) and isinstance(op, ast.Add):
            if isinstance(a, (str, bytes)) and isinstance(b, (str, bytes)):
                return a + b
            return self.str_concat(as_sstr(a), as_sstr(b))
        if isinstance(op, ast.Mult) and ((is_strlike(a) and is_intlike(b)) or (is_intlike(a) and is_strlike(b))):
            if is_intlike(a):
                a, b = b, a
            if isinstance(a, (str, bytes)) and isinstance(b, int):
                return a * b
            return self.str_repeat(a, b)
        if isinstance(op, ast.Mod) and is_strlike(a):
            return self.str_format_percent(a, b)
        # ---- lists
        if isinstance(a, PList) and isinstance(b, PList) and isinstance(op, ast.Add):
            if inplace:
                self.note_write(a)
                a.items.extend(b.items)
                return a
            return PList(a.items + b.items)
        if isinstance(a, tuple) and isinstance(b, tuple) and isinstance(op, ast.Add):
            return a + b
        if isinstance(op, ast.Mult) and isinstance(a, PList) and isinstance(b, int):
            return PList(a.items * b)
        if isinstance(op, ast.Mult) and isinstance(b, PList) and isinstance(a, int):
            return PList(b.items * a)
        if isinstance(op, ast.Mult) and isinstance(a, PList) and isinstance(b, SInt):
            cv = concrete_int(b.e)
            if cv is not None:
                return PList(a.items * max(cv, 0))
            return RepList(a.items, b.e, [])
        if isinstance(op, ast.Add) and isinstance(a, RepList) and isinstance(b, PList):
            return RepList(a.base, a.count, a.tail + b.items, head=a.head)
        # ---- objects with operator methods
        if isinstance(a, Obj):
            name = {ast.Add: "__add__", ast.Sub: "__sub__", ast.Mult: "__mul__"}.get(type(op))
            m = name and self.find_method(a.cls, name)
            if m is not None:
                return self.call(BoundMethod(a, m), [b], {}, line)
        # ---- numbers
        if is_numlike(a) and is_numlike(b):
            return self.arith(op, a, b, line)
        if isinstance(a, PSet) and isinstance(b, PSet):
            raise Unsupported("set operator")
        raise Raised(TypeError, line, implicit=True, note="binop %s on %r, %r" % (type(op).__name__, a, b))

    def arith(self, op, a, b, line):
        conc = not is_sym(a) and not is_sym(b)
        if conc:
            try:
                return self.py_arith(op, a, b)
            except ZeroDivisionError:
                raise Raised(ZeroDivisionError, line, implicit=True)
            except OverflowError:
                raise Raised(OverflowError, line, implicit=True)
        realish = isinstance(a, (float, SReal)) or isinstance(b, (float, SReal)) or isinstance(op, ast.Div)
        if realish:
            self.ctx.tags.add("float-as-real")
            x, y = zreal(a), zreal(b)
            if isinstance(op, ast.Add):
                return mk_real(x + y)
            if isinstance(op, ast.Sub):
                return mk_real(x - y)
            if isinstance(op, ast.Mult):
                return mk_real(x * y)
            if isinstance(op, ast.Div):
                if not self.frame.spec:
                    if not self.ctx.branch(y != 0):
                        raise Raised(ZeroDivisionError, line, implicit=True)
                return mk_real(x / y)
            if isinstance(op, (ast.Mod, ast.FloorDiv)):
                if not self.frame.spec:
                    if not self.ctx.branch(y != 0):
                        raise Raised(ZeroDivisionError, line, implicit=True)
                yv = z3.simplify(y)
                if z3.is_rational_value(yv) and yv.numerator_as_long() > 0:
                    fl = z3.ToReal(z3.ToInt(x / yv))       # floor for a positive divisor
                    if yv.denominator_as_long() == 1:
                        # arithmetic fact handed to the solver: for integral x, floor(x / c) == x div c
                        c = yv.numerator_as_long()
                        self.ctx.assume(z3.Implies(z3.IsInt(x), z3.ToInt(x / yv) == z3.ToInt(x) / c))
                        self.ctx.tags.add("arithmetic lemma instantiated: floor(x/c) == int(x) div c for integral x")
                    return mk_real(fl if isinstance(op, ast.FloorDiv) else x - yv * fl)
                raise Unsupported("real %% or // with a non-constant or negative divisor")
            raise Unsupported("real operator %s" % type(op).__name__)
        x, y = zint(a), zint(b)
        if isinstance(op, ast.Add):
            return mk_int(x + y)
        if isinstance(op, ast.Sub):
            return mk_int(x - y)
        if isinstance(op, ast.Mult):
            return mk_int(x * y)
        if isinstance(op, (ast.Mod, ast.FloorDiv)):
            if not self.frame.spec:
                if not self.ctx.branch(y != 0):
                    raise Raised(ZeroDivisionError, line, implicit=True)
            y = z3.simplify(y)
            return mk_int(py_mod(x, y) if isinstance(op, ast.Mod) else py_floordiv(x, y))
        if isinstance(op, ast.Pow):
            yv = concrete_int(y)
            if yv is not None and 0 <= yv <= 8:
                r = z3.IntVal(1)
                for _ in range(yv):
                    r = r * x
                return mk_int(r)
            raise Unsupported("symbolic power")
        if isinstance(op, (ast.BitAnd, ast.BitOr, ast.LShift, ast.RShift, ast.BitXor)):
            return self.bitop(op, a, b, line)
        raise Unsupported("int operator %s" % type(op).__name__)

    def bitop(self, op, a, b, line):
        """Bit operations in the forms the repository uses, on non-negative ints.

        The side conditions (non-negativity, ranges) are asserted as obligations.
        """
        ctx = self.ctx
        x, y = zint(a), zint(b)
        yv = concrete_int(y)
        xv = concrete_int(x)
        if isinstance(op, ast.BitAnd) and yv is not None and yv >= 0 and (yv & (yv + 1)) == 0:
            # x & (2^k - 1) == x mod 2^k   (holds for every Python int x, negative too)
            return mk_int(x % (yv + 1))
        if isinstance(op, ast.BitAnd) and yv is not None and yv > 0 and (yv & (yv - 1)) == 0:
            # x & 2^k == 2^k if bit k set else 0   (x >= 0 required)
            self.side(x >= 0, line, "bitand operand non-negative")
            return mk_int(z3.If((x / yv) % 2 == 1, z3.IntVal(yv), z3.IntVal(0)))
        if isinstance(op, ast.BitAnd) and yv is not None and yv >= 0:
            # general constant mask on a non-negative value: sum of masked bits
            self.side(x >= 0, line, "bitand operand non-negative")
            r = z3.IntVal(0)
            bit = 1
            while bit <= yv:
                if yv & bit:
                    r = r + z3.If((x / bit) % 2 == 1, z3.IntVal(bit), z3.IntVal(0))
                bit <<= 1
            return mk_int(r)
        if isinstance(op, ast.RShift) and yv is not None and yv >= 0:
            return mk_int(x / (2 ** yv))
        if isinstance(op, ast.LShift) and yv is not None and yv >= 0:
            return mk_int(x * (2 ** yv))
        if isinstance(op, ast.BitOr):
            # x | y == x + y when the operands share no bits: supported when one is a
            # constant 2^k * m and the other is proved < 2^k and >= 0
            for (p, q, qv) in ((x, y, yv), (y, x, xv)):
                if qv is not None and qv >= 0:
                    low = (qv & -qv) if qv else None
                    if qv == 0:
                        return mk_int(p)
                    self.side(z3.And(p >= 0, p < low), line, "bitor operands disjoint")
                    return mk_int(p + q)
            # both symbolic: (a << k) form on one side
            for (p, q) in ((x, y), (y, x)):
                k = self.shift_amount(q)
                if k is not None:
                    self.side(z3.And(p >= 0, p < 2 ** k, q >= 0), line, "bitor operands disjoint")
                    return mk_int(p + q)
        raise Unsupported("bit operation %s at line %s" % (type(op).__name__, line))

    def shift_amount(self, e):
        e = z3.simplify(e)
        if z3.is_app(e) and e.decl().kind() == z3.Z3_OP_MUL:
            ch = e.children()
            for c in ch:
                if z3.is_int_value(c):
                    v = c.as_long()
                    if v > 0 and (v & (v - 1)) == 0:
                        return v.bit_length() - 1
        return None

    def side(self, condition, line, what):
        if self.frame.spec:
            return
        self.ctx.emit("side", "side/%s@%s" % (what.replace(" ", "-"), line), condition, line)

    def py_arith(self, op, a, b):
        t = type(op)
        if t is ast.Add:
            return a + b
        if t is ast.Sub:
            return a - b
        if t is ast.Mult:
            return a * b
        if t is ast.Div:
            return a / b
        if t is ast.FloorDiv:
            return a // b
        if t is ast.Mod:
            return a % b
        if t is ast.Pow:
            return a ** b
        if t is ast.BitAnd:
            return a & b
        if t is ast.BitOr:
            return a | b
        if t is ast.BitXor:
            return a ^ b
        if t is ast.LShift:
            return a << b
        if t is ast.RShift:
            return a >> b
        raise Unsupported("operator")

    def str_concat(self, a, b):
        nb = b.known_len()
        if nb is not None:
            arr = a.arr
            base = a.off + a.length
            for i in range(nb):
                arr = z3.Store(arr, z3.simplify(base + i), b.at(i))
            return SStr(z3.simplify(a.length + nb), arr, a.off, is_bytes=a.is_bytes or b.is_bytes,
                        maxlen=(a.max_len() + nb) if a.max_len() is not None else None)
        na = a.known_len()
        if na is not None:
            arr = b.arr
            off = z3.simplify(b.off - na)
            for i in range(na):
                arr = z3.Store(arr, z3.simplify(off + i), a.at(i))
            return SStr(z3.simplify(b.length + na), arr, off, is_bytes=a.is_bytes or b.is_bytes,
                        maxlen=(b.max_len() + na) if b.max_len() is not None else None)
        if a.opaque or b.opaque:
            return self.opaque_str()
        mb = b.max_len()
        if mb is not None and mb <= 24:
            # right operand of bounded length: case split on its length
            r = None
            for l in range(mb, -1, -1):
                bl = SStr(z3.IntVal(l), b.arr, b.off, is_bytes=b.is_bytes)
                cand = self.str_concat(a, bl) if l else a
                r = cand if r is None else self.merge(b.length == l, cand, r)
            return r
        ma = a.max_len()
        if ma is not None and ma <= 24:
            r = None
            for l in range(ma, -1, -1):
                al = SStr(z3.IntVal(l), a.arr, a.off, is_bytes=a.is_bytes)
                cand = self.str_concat(al, b) if l else b
                r = cand if r is None else self.merge(a.length == l, cand, r)
            return r
        # general case: a fresh string defined pointwise by two universally quantified facts
        ctx = self.ctx
        if os.environ.get("PYVC_CONCAT", "lambda") == "lambda":
            # the concatenation as a lambda-defined array: selecting from it beta-reduces, no quantifier is involved
            i = z3.Int("q_cat_i")
            arr = z3.Lambda([i], z3.If(i < a.length, a.at(i), b.at(i - a.length)))
            return SStr(z3.simplify(a.length + b.length), arr, z3.IntVal(0), is_bytes=a.is_bytes or b.is_bytes,
                        maxlen=(a.max_len() + b.max_len()) if a.max_len() is not None and b.max_len() is not None else None)
        r = ctx.fresh_str("cat", is_bytes=a.is_bytes or b.is_bytes)
        ctx.assume(r.length == a.length + b.length)
        i = z3.Int("q_cat_i")
        ctx.assume(z3.ForAll([i], z3.Implies(z3.And(i >= 0, i < a.length), r.at(i) == a.at(i))))
        ctx.assume(z3.ForAll([i], z3.Implies(z3.And(i >= 0, i < b.length), r.at(a.length + i) == b.at(i))))
        ctx.tags.add("quantified definition of the concatenation of two strings of unknown length")
        return r

    def str_repeat(self, s, n):
        s = as_sstr(s)
        ln = s.known_len()
        if ln == 1:
            cnt = ghost.zmax0(zint(n))
            return SStr(z3.simplify(cnt), z3.K(INT, s.at(0)), z3.IntVal(0), is_bytes=s.is_bytes)
        if ln == 0:
            return "" if not s.is_bytes else b""
        nv = concrete_int(zint(n))
        if nv is not None:
            r = "" if not s.is_bytes else b""
            for _ in range(max(nv, 0)):
                r = self.binop(ast.Add(), r, s, None) if not isinstance(r, (str, bytes)) or r else s
            return r
        raise Unsupported("repetition of a multi-character string a symbolic number of times")

    def str_format_percent(self, fmt, args):
        if isinstance(fmt, str):
            tup = args if isinstance(args, tuple) else (args,)
            import re as _re
            nspec = len(_re.findall(r"%(?!%)", fmt.replace("%%", "")))
            if "%(" not in fmt and nspec != len(tup):
                raise Raised(TypeError, None, implicit=True,
                             note="%%-format with %d specifiers applied to %d values" % (nspec, len(tup)))
            conc = [try_concrete_str(x) if isinstance(x, SStr) else x for x in tup]
            if all(not is_sym(x) and x is not None or x is None and y is None for x, y in zip(conc, tup)):
                try:
                    return fmt % (tuple(conc) if isinstance(args, tuple) else conc[0])
                except TypeError:
                    raise Raised(TypeError, None, implicit=True)
            r = self.engine.percent_format(self, fmt, tup)
            if r is not None:
                return r
        return self.opaque_str()

    # ------------------------------------------------------------ comparison
    def compare(self, op, a, b, line):
        t = type(op)
        if t in (ast.Is, ast.IsNot):
            r = self.identical(a, b)
            if t is ast.IsNot:
                r = (not r) if isinstance(r, bool) else z3.Not(r)
            return r
        if t in (ast.In, ast.NotIn):
            r = self.contains(b, a, line)
            if t is ast.NotIn:
                r = (not r) if isinstance(r, bool) else z3.Not(r)
            return r
        if t in (ast.Eq, ast.NotEq):
            gm = self.ctx.goal_mode
            if t is ast.NotEq or isinstance(a, (bool, SBool)) or isinstance(b, (bool, SBool)):
                self.ctx.goal_mode = False
            try:
                r = self.equals(a, b, line)
            finally:
                self.ctx.goal_mode = gm
            if t is ast.NotEq:
                if isinstance(a, Obj) and self.find_method(a.cls, "__ne__") is not None:
                    v = self.call(BoundMethod(a, self.find_method(a.cls, "__ne__")), [b], {}, line)
                    return self.truth(v)
                r = (not r) if isinstance(r, bool) else z3.Not(r)
            return r
        # ordering
        if isinstance(a, Obj):
            name = {ast.Lt: "__lt__", ast.LtE: "__le__", ast.Gt: "__gt__", ast.GtE: "__ge__"}[t]
            m = self.find_method(a.cls, name)
            if m is not None:
                return self.truth(self.call(BoundMethod(a, m), [b], {}, line))
        if is_numlike(a) and is_numlike(b):
            if not is_sym(a) and not is_sym(b):
                return {ast.Lt: a < b, ast.LtE: a <= b, ast.Gt: a > b, ast.GtE: a >= b}[t]
            if isinstance(a, (float, SReal)) or isinstance(b, (float, SReal)):
                self.ctx.tags.add("float-as-real")
                x, y = zreal(a), zreal(b)
            else:
                x, y = zint(a), zint(b)
            return {ast.Lt: x < y, ast.LtE: x <= y, ast.Gt: x > y, ast.GtE: x >= y}[t]
        if isinstance(a, str) and isinstance(b, str):
            return {ast.Lt: a < b, ast.LtE: a <= b, ast.Gt: a > b, ast.GtE: a >= b}[t]
        if a is None or b is None:
            raise Raised(TypeError, line, implicit=True, note="ordering with None")
        raise Unsupported("ordering of %r and %r" % (a, b))

    def identical(self, a, b):
        if a is None or b is None:
            return a is b
        if isinstance(a, (bool,)) or isinstance(b, bool):
            if isinstance(a, bool) and isinstance(b, bool):
                return a == b
            if isinstance(a, SBool) or isinstance(b, SBool):
                x = a.e if isinstance(a, SBool) else z3.BoolVal(a)
                y = b.e if isinstance(b, SBool) else z3.BoolVal(b)
                return x == y
            return False
        if isinstance(a, (Obj, PList, PDict, PSet)) or isinstance(b, (Obj, PList, PDict, PSet)):
            return a is b
        raise Unsupported("identity test on %r, %r" % (a, b))

    def equals(self, a, b, line):
        """Python == ; returns bool or z3 Bool."""
        if isinstance(a, Obj) and a is b and self.frame.spec:
            return True      # contracts compare trace records by object identity first (as list/dict comparison does)
        if isinstance(a, Obj):
            m = self.find_method(a.cls, "__eq__")
            if m is not None:
                return self.truth(self.call(BoundMethod(a, m), [b], {}, line))
            return a is b
        if isinstance(b, Obj):
            m = self.find_method(b.cls, "__eq__")
            if m is not None:
                return self.truth(self.call(BoundMethod(b, m), [a], {}, line))
            return a is b
        if a is None or b is None:
            return a is None and b is None
        if is_strlike(a) and is_strlike(b):
            def _isb(x):
                return isinstance(x, (bytes, bytearray)) or bool(getattr(x, "is_bytes", False))
            if _isb(a) != _isb(b):
                return False        # bytes never equal str in Python 3
            return str_eq(a, b, self.ctx if self.frame.spec else None)
        if is_strlike(a) or is_strlike(b):
            # str vs non-str
            return False
        if is_numlike(a) and is_numlike(b):
            if not is_sym(a) and not is_sym(b):
                return a == b
            if isinstance(a, (float, SReal)) or isinstance(b, (float, SReal)):
                return zreal(a) == zreal(b)
            return zint(a) == zint(b)
        if isinstance(a, (PList, tuple)) and isinstance(b, (PList, tuple)):
            if isinstance(a, tuple) != isinstance(b, tuple):
                return False
            xs = a.items if isinstance(a, PList) else list(a)
            ys = b.items if isinstance(b, PList) else list(b)
            if len(xs) != len(ys):
                return False
            acc = []
            for x, y in zip(xs, ys):
                r = self.equals(x, y, line)
                if isinstance(r, bool):
                    if not r:
                        return False
                else:
                    acc.append(r)
            return z3.And(acc) if acc else True
        if isinstance(a, PDict) and isinstance(b, PDict):
            if set(a.d) != set(b.d):
                return False
            acc = []
            for k in a.d:
                r = self.equals(a.d[k], b.d[k], line)
                if isinstance(r, bool):
                    if not r:
                        return False
                else:
                    acc.append(r)
            return z3.And(acc) if acc else True
        if type(a) is not type(b):
            if isinstance(a, (FuncRef, ClassRef, Builtin, TypeName)) or isinstance(b, (FuncRef, ClassRef, Builtin, TypeName)):
                return a is b
            if isinstance(a, (PList, tuple, PDict, PSet)) or isinstance(b, (PList, tuple, PDict, PSet)):
                return False
        if isinstance(a, (ClassRef,)) and isinstance(b, ClassRef):
            return a.cls is b.cls
        raise Unsupported("equality of %r and %r" % (a, b))

    def contains(self, container, item, line):
        if isinstance(container, SIntSet):
            return MEMBER(z3.IntVal(container.ident), zint(item))
        if isinstance(container, PDict):
            keys = list(container.d.keys())
            return self.any_eq(item, keys, line)
        if isinstance(container, (PList, PSet)):
            return self.any_eq(item, container.items, line)
        if isinstance(container, tuple):
            return self.any_eq(item, list(container), line)
        if isinstance(container, range):
            if isinstance(item, int):
                return item in container
            if isinstance(item, (SInt, SBool)) and container.step == 1:
                x = zint(item)
                return z3.And(x >= container.start, x < container.stop)
            if isinstance(item, (float,)):
                return item in container
            if isinstance(item, SReal) and container.step == 1:
                x = item.e
                return z3.And(z3.IsInt(x), x >= container.start, x < container.stop)
            return False
        if isinstance(container, RangeVal):
            x = zint(item)
            return z3.And(x >= zint(container.lo), x < zint(container.hi))
        if isinstance(container, str):
            if isinstance(item, str):
                return item in container
            if isinstance(item, SStr):
                n = item.known_len()
                if n == 1:
                    c = item.at(0)
                    return z3.Or([c == ord(ch) for ch in container]) if container else False
                if n == 0:
                    return True
                if n is None:
                    # substring test with unknown length: only the one-char case is exact
                    raise Unsupported("substring test with a string of unknown length")
                # known length n > 1
                opts = []
                for st in range(0, len(container) - n + 1):
                    opts.append(z3.And([item.at(i) == ord(container[st + i]) for i in range(n)]))
                return z3.Or(opts) if opts else False
        if isinstance(container, SStr) and isinstance(item, str) and len(item) == 1 and container.known_len() is None:
            k = ord(item)
            reg = self.ctx.reg
            if k == 35:
                return reg.cnt("sharp", container.arr, container.off, container.off + container.length) > 0
            if k == 98:
                return reg.cnt("flat", container.arr, container.off, container.off + container.length) > 0
            # any other character: absent when the first character differs and the rest holds only '#'/'b'
            absent = z3.Or(container.length == 0,
                           z3.And(container.at(0) != k,
                                  reg.cnt("other", container.arr, container.off + 1, container.off + container.length) == 0))
            if not self.frame.spec and self.ctx.branch(absent):
                return False
            raise Unsupported("substring test in a string that may contain the character")
        if isinstance(container, SStr) and is_strlike(item):
            it = as_sstr(item)
            if it.known_len() == 1 and container.known_len() is not None:
                return z3.Or([container.at(i) == it.at(0) for i in range(container.known_len())]) \
                    if container.known_len() else False
            raise Unsupported("substring test in a symbolic string")
        if isinstance(container, Obj):
            m = self.find_method(container.cls, "__contains__")
            if m is not None:
                return self.truth(self.call(BoundMethod(container, m), [item], {}, line))
        raise Unsupported("membership test in %r" % (container,))

    def any_eq(self, item, elems, line):
        acc = []
        for e in elems:
            r = self.equals(item, e, line)
            if isinstance(r, bool):
                if r:
                    return True
            else:
                acc.append(r)
        if not acc:
            return False
        return z3.Or(acc) if len(acc) > 1 else acc[0]

    # ------------------------------------------------------------ subscripts
    def norm_index(self, idx, n, line):
        """-> z3 position expr after negative-index normalisation, with IndexError branch."""
        if isinstance(idx, bool):
            idx = int(idx)
        if isinstance(idx, int) and isinstance(n, int):
            if not (-n <= idx < n):
                raise Raised(IndexError, line, implicit=True)
            return idx % n if n else 0
        if not is_intlike(idx):
            raise Raised(TypeError, line, implicit=True, note="index %r" % (idx,))
        i = zint(idx)
        nn = z3.IntVal(n) if isinstance(n, int) else n
        pos = z3.simplify(z3.If(i < 0, i + nn, i))
        if self.frame.spec:
            return pos
        ok = z3.And(pos >= 0, pos < nn)
        if not self.ctx.branch(ok):
            raise Raised(IndexError, line, implicit=True)
        return pos

    def getitem(self, o, idx, line):
        if isinstance(idx, slice):
            return self.getslice(o, idx.start, idx.stop, idx.step, line)
        if isinstance(o, (str, bytes)) and isinstance(idx, int):
            try:
                return o[idx]
            except IndexError:
                if self.frame.spec:
                    return "\0"
                raise Raised(IndexError, line, implicit=True)
        if is_strlike(o):
            s = as_sstr(o)
            pos = self.norm_index(idx, s.length if s.known_len() is None else s.known_len(), line)
            if isinstance(pos, int):
                pos = z3.IntVal(pos)
            self.ctx.reg.note_select(s.arr, s.off + pos)
            if s.is_bytes:
                return mk_int(s.at(pos))
            r = char_sstr(s.at(pos))
            c = try_concrete_str(r)
            return c if c is not None else r
        if isinstance(o, (PList, tuple)):
            items = o.items if isinstance(o, PList) else list(o)
            n = len(items)
            if isinstance(idx, (int,)):
                pos = self.norm_index(idx, n, line)
                return items[pos]
            pos = self.norm_index(idx, n, line)
            pv = concrete_int(pos)
            if pv is not None:
                return items[pv]
            r = items[n - 1]
            for i in range(n - 2, -1, -1):
                r = self.merge(pos == i, items[i], r)
            return r
        if isinstance(o, PDict):
            if is_sym(idx):
                if isinstance(idx, SStr):
                    c = try_concrete_str(idx)
                    if c is not None:
                        idx = c
            if not is_sym(idx):
                try:
                    if idx in o.d:
                        return o.d[idx]
                except TypeError:
                    raise Raised(TypeError, line, implicit=True)
                if self.frame.spec:
                    raise Unsupported("spec dict lookup of missing key %r" % (idx,))
                raise Raised(KeyError, line, implicit=True)
            keys = list(o.d.keys())
            conds = []
            for k in keys:
                conds.append(self.equals(idx, k, line))
            present = [c for c in conds if not (isinstance(c, bool) and not c)]
            if not self.frame.spec:
                anyc = z3.Or([c if not isinstance(c, bool) else z3.BoolVal(c) for c in present]) if present else False
                if not self.ctx.branch(anyc if not isinstance(anyc, bool) else z3.BoolVal(anyc)):
                    raise Raised(KeyError, line, implicit=True)
            r = None
            for k, c in reversed(list(zip(keys, conds))):
                if isinstance(c, bool) and not c:
                    continue
                r = o.d[k] if r is None else self.merge(c, o.d[k], r)
            if r is None:
                raise Unsupported("dict lookup impossible")
            return r
        if isinstance(o, SList):
            pos = self.norm_index(idx, o.length, line)
            return self.engine.slist_elem(self, o, pos)
        if isinstance(o, RepList):
            if getattr(o, "is_iterator", False):
                raise Raised(TypeError, line, implicit=True, note="iterator is not subscriptable")
            return self.replist_item(o, idx, line)
        if isinstance(o, Obj):
            m = self.find_method(o.cls, "__getitem__")
            if m is not None:
                return self.call(BoundMethod(o, m), [idx], {}, line)
        if isinstance(o, PIter):
            raise Raised(TypeError, line, implicit=True, note="iterator is not subscriptable")
        if isinstance(o, range) and isinstance(idx, int):
            try:
                return o[idx]
            except IndexError:
                raise Raised(IndexError, line, implicit=True)
        raise Raised(TypeError, line, implicit=True, note="not subscriptable: %r" % (o,))

    def replist_item(self, o, idx, line):
        h, p, t = len(o.head), len(o.base), len(o.tail)
        cnt = ghost.zmax0(o.count)
        if not isinstance(idx, int):
            total = h + p * cnt + t
            i = zint(idx)
            pos = z3.If(i < 0, i + total, i)
            if not self.frame.spec:
                if not self.ctx.branch(z3.And(pos >= 0, pos < total)):
                    raise Raised(IndexError, line, implicit=True)
            r = None
            for j in range(t - 1, -1, -1):
                r = o.tail[j] if r is None else self.merge(pos == h + p * cnt + j, o.tail[j], r)
            for j in range(p - 1, -1, -1):
                c = z3.And(pos >= h, pos < h + p * cnt, (pos - h) % p == j)
                r = o.base[j] if r is None else self.merge(c, o.base[j], r)
            for j in range(h - 1, -1, -1):
                r = o.head[j] if r is None else self.merge(pos == j, o.head[j], r)
            return r
        total = h + p * cnt + t
        if idx < 0:
            if -idx <= t:
                return o.tail[idx]
            raise Unsupported("negative index into the repeated part")
        if not self.frame.spec:
            if not self.ctx.branch(idx < total):
                raise Raised(IndexError, line, implicit=True)
        if idx < h:
            return o.head[idx]
        j0 = idx - h
        r = o.base[j0 % p] if p else None
        for c in range(0, (j0 // p if p else 0) + 1):
            j = j0 - p * c
            if 0 <= j < t:
                cand = o.tail[j]
                r = cand if r is None else self.merge(cnt == c, cand, r)
        if r is None:
            raise Raised(IndexError, line, implicit=True)
        return r

    def getslice(self, o, lo, hi, st, line):
        if isinstance(o, RepList) and getattr(o, "is_iterator", False):
            raise Raised(TypeError, line, implicit=True, note="iterator is not subscriptable")
        if isinstance(o, RepList) and st is None and lo is None and isinstance(hi, int) and hi < 0 \
                and len(o.tail) < -hi <= len(o.tail) + len(o.base):
            # peel one repetition off the repeated part (needs count >= 1)
            if not self.frame.spec:
                if not self.ctx.branch(o.count >= 1):
                    raise Unsupported("slice of an empty repetition")
            peeled = RepList(o.base, z3.simplify(o.count - 1), o.base + o.tail, head=o.head)
            return self.getslice(peeled, lo, hi, st, line)
        if isinstance(o, RepList) and st is None and lo is None and isinstance(hi, int) and hi < 0 \
                and -hi <= len(o.tail):
            return RepList(o.base, o.count, o.tail[:hi], head=o.head)
        if st is not None and st != 1:
            if isinstance(o, (str, bytes, tuple)) and all(x is None or isinstance(x, int) for x in (lo, hi, st)):
                return o[lo:hi:st]
            if isinstance(o, PList) and all(x is None or isinstance(x, int) for x in (lo, hi, st)):
                return PList(o.items[lo:hi:st])
            raise Unsupported("extended slice")
        if isinstance(o, PIter):
            raise Raised(TypeError, line, implicit=True, note="iterator is not subscriptable")
        if isinstance(o, (str, bytes, tuple)) and all(x is None or isinstance(x, int) for x in (lo, hi)):
            return o[lo:hi]
        if isinstance(o, PList) and all(x is None or isinstance(x, int) for x in (lo, hi)):
            return PList(o.items[lo:hi])
        if isinstance(o, SList) and st is None and all(x is None or is_intlike(x) for x in (lo, hi)):
            return self.engine.slist_slice(self, o, lo, hi)
        if isinstance(o, Obj):
            raise Unsupported("slice of object")
        if is_strlike(o):
            s = as_sstr(o)
            n = s.length

            def clamp(x, default):
                if x is None:
                    return default
                e = zint(x)
                return z3.If(e < 0, ghost.zmax0(n + e), z3.If(e > n, n, e))
            l = z3.simplify(clamp(lo, z3.IntVal(0)))
            h = z3.simplify(clamp(hi, n))
            return SStr(z3.simplify(ghost.zmax0(h - l)), s.arr, z3.simplify(s.off + l), is_bytes=s.is_bytes)
        if isinstance(o, PList):
            raise Unsupported("list slice with symbolic bounds")
        raise Unsupported("slice of %r" % (o,))

    # ------------------------------------------------------------ attributes
    def find_method(self, cls, name):
        for k in cls.__mro__:
            if name in k.__dict__:
                f = k.__dict__[name]
                if isinstance(f, types.FunctionType):
                    return self.engine.funcref_of(f)
                if isinstance(f, (staticmethod, classmethod)):
                    raise Unsupported("static/class method %s" % name)
                return None
        return None

    def find_property(self, cls, name):
        for k in cls.__mro__:
            if name in k.__dict__:
                f = k.__dict__[name]
                if isinstance(f, property):
                    g = self.engine.funcref_of(f.fget) if f.fget else None
                    s = self.engine.funcref_of(f.fset) if f.fset else None
                    return (g, s)
                return None
        return None

    def getattr(self, o, name, line):
        if isinstance(o, ModuleRef):
            if not hasattr(o.mod, name):
                raise Raised(AttributeError, line, implicit=True, note=name)
            return self.wrap(getattr(o.mod, name), "module:%s.%s" % (o.mod.__name__, name))
        if isinstance(o, Obj):
            prop = self.find_property(o.cls, name)
            if prop is not None:
                return self.call(BoundMethod(o, prop[0]), [], {}, line)
            if name in o.fields:
                return o.fields[name]
            m = self.find_method(o.cls, name)
            if m is not None:
                return BoundMethod(o, m)
            for k in o.cls.__mro__:
                if name in k.__dict__:
                    return self.wrap(k.__dict__[name], "class:%s.%s" % (k.__name__, name))
            if self.frame.spec:
                raise Unsupported("spec reads missing attribute %s" % name)
            if str(getattr(o, "origin", "") or "").startswith("param:"):
                # a symbolic object built from the contract's field schema: a field the schema does not list is
                # unknown state (e.g. added to __init__ later), not a missing attribute
                raise Unsupported("the object schema of %s has no field '%s'" % (o.cls.__name__, name))
            raise Raised(AttributeError, line, implicit=True, note=name)
        if isinstance(o, ClassRef):
            if name in ("__name__",):
                return o.cls.__name__
            for k in o.cls.__mro__:
                if name in k.__dict__:
                    f = k.__dict__[name]
                    if isinstance(f, types.FunctionType):
                        return self.engine.funcref_of(f)
                    return self.wrap(f, "class:%s.%s" % (k.__name__, name))
            raise Raised(AttributeError, line, implicit=True, note=name)
        if isinstance(o, (PList, PDict, PSet, SStr, str, bytes, SList, PIter)):
            return NativeMethod(o, name)
        if isinstance(o, TypeName) and o.t in (str, list, dict, bytes) and hasattr(o.t, name):
            return NativeMethod(_UNBOUND, name)
        if isinstance(o, FileObj):
            if name == "data":
                return o.data
            if name == "pos":
                return mk_int(o.pos)
            return NativeMethod(o, name)
        if isinstance(o, SuperProxy):
            mro = list(o.obj.cls.__mro__)
            for k in mro[mro.index(o.after) + 1:]:
                if name in k.__dict__ and isinstance(k.__dict__[name], types.FunctionType):
                    return BoundMethod(o.obj, self.engine.funcref_of(k.__dict__[name]))
            raise Raised(AttributeError, line, implicit=True, note="super().%s" % name)
        if isinstance(o, ExcValue):
            raise Unsupported("attribute of exception value")
        if isinstance(o, (int, float, SInt, SReal)):
            return NativeMethod(o, name)
        if o is None:
            raise Raised(AttributeError, line, implicit=True, note="None.%s" % name)
        raise Unsupported("attribute %s of %r" % (name, o))

    # ------------------------------------------------------------ calls
    def ev_Call(self, node):
        f = self.eval(node.func)
        args = []
        if self.frame.spec and isinstance(node.func, ast.Name) and node.func.id == "all" and len(node.args) == 1 \
                and isinstance(node.args[0], (ast.ListComp, ast.GeneratorExp)) and len(node.args[0].generators) == 1 \
                and not node.args[0].generators[0].ifs and isinstance(node.args[0].generators[0].target, ast.Name):
            g = node.args[0].generators[0]
            it = self.eval(g.iter)
            if isinstance(it, RangeVal):
                return self.quantified_all(node.args[0], g, it)
            # concrete iterable: ordinary evaluation over the iterable already computed
            lst = self.ev_ListComp(node.args[0], precomputed=it)
            return self.call(f, [lst], {}, node.lineno)
        if self.frame.spec and isinstance(node.func, ast.Name) and node.func.id == "implies" and len(node.args) == 2:
            gm = self.ctx.goal_mode
            self.ctx.goal_mode = False
            try:
                a0 = self.eval(node.args[0])
            finally:
                self.ctx.goal_mode = gm
            return self.call(f, [a0, self.eval(node.args[1])], {}, node.lineno)
        for a in node.args:
            if isinstance(a, ast.Starred):
                args.extend(self.iter_concrete(self.eval(a.value), node.lineno))
            else:
                args.append(self.eval(a))
        kwargs = {}
        for k in node.keywords:
            if k.arg is None:
                raise Unsupported("**kwargs call")
            kwargs[k.arg] = self.eval(k.value)
        return self.call(f, args, kwargs, node.lineno)

    def call(self, f, args, kwargs, line):
        if type(f).__name__ == "GhostPrim":
            return f.fn(self, *args)
        if isinstance(f, FuncRef):
            return self.call_function(f, args, kwargs, line)
        if isinstance(f, BoundMethod):
            return self.call_function(f.func, [f.obj] + list(args), kwargs, line)
        if isinstance(f, ClassRef):
            return self.instantiate(f.cls, args, kwargs, line)
        if isinstance(f, NativeMethod):
            from . import builtins_model
            if f.recv is _UNBOUND:       # str.lower(s), list.append(l, x): the receiver is the first argument
                if not args:
                    raise Raised(TypeError, line, implicit=True)
                return builtins_model.native_method(self, args[0], f.name, list(args[1:]), kwargs, line)
            return builtins_model.native_method(self, f.recv, f.name, args, kwargs, line)
        if isinstance(f, (Builtin, TypeName)):
            from . import builtins_model
            return builtins_model.call_builtin(self, f, args, kwargs, line)
        if isinstance(f, Obj):
            m = self.find_method(f.cls, "__call__")
            if m is not None:
                return self.call_function(m, [f] + list(args), kwargs, line)
        raise Raised(TypeError, line, implicit=True, note="not callable: %r" % (f,))

    def instantiate(self, cls, args, kwargs, line):
        if isinstance(cls, type) and issubclass(cls, BaseException):
            return ExcValue(cls, tuple(args))
        o = Obj(cls, {})
        self.ctx.alloc += 1
        init = self.find_method(cls, "__init__")
        if init is not None:
            self.call_function(init, [o] + list(args), kwargs, line)
        elif args or kwargs:
            raise Raised(TypeError, line, implicit=True)
        return o

    def bind_args(self, fref, args, kwargs, line):
        node = fref.node
        a = node.args
        params = [p.arg for p in a.posonlyargs + a.args]
        env = {}
        if len(args) > len(params) and a.vararg is None:
            raise Raised(TypeError, line, implicit=True, note="too many arguments for %s" % fref.fq)
        for p, v in zip(params, args):
            env[p] = v
        if a.vararg is not None:
            env[a.vararg.arg] = tuple(args[len(params):])
        for k, v in kwargs.items():
            if k in env:
                raise Raised(TypeError, line, implicit=True, note="duplicate argument")
            if k not in params and k not in [p.arg for p in a.kwonlyargs]:
                if a.kwarg is None:
                    raise Raised(TypeError, line, implicit=True, note="unexpected keyword %s" % k)
            env[k] = v
        # defaults
        nd = len(a.defaults)
        for i, p in enumerate(params):
            if p not in env:
                j = i - (len(params) - nd)
                if j < 0:
                    raise Raised(TypeError, line, implicit=True, note="missing argument %s of %s" % (p, fref.fq))
                env[p] = self.eval_default(fref, a.defaults[j])
        for p, d in zip(a.kwonlyargs, a.kw_defaults):
            if p.arg not in env:
                if d is None:
                    raise Raised(TypeError, line, implicit=True)
                env[p.arg] = self.eval_default(fref, d)
        return env

    def eval_default(self, fref, dnode):
        self.frames.append(Frame(None, {}, fref.module, closure=fref.closure or []))
        try:
            v = self.eval(dnode)
        finally:
            self.frames.pop()
        if isinstance(v, (PList, PDict, PSet)) and getattr(v, "origin", None) is None:
            # a mutable default is ONE object shared by every call that omits the argument: it is function-level
            # state, so writing to it (or returning it) is a frame / freshness matter, not a local one
            v.origin = "module:%s.__defaults__" % fref.fq
        return v

    def call_function(self, fref, args, kwargs, line):
        eng = self.engine
        fq = fref.fq
        if fref.node is None:
            raise Unsupported("no source for %s" % fq)
        env = self.bind_args(fref, args, kwargs, line)
        if fref.module in eng.spec_modules:
            return self.run_spec_function(fref, env)
        contract = None if self.concrete else eng.contracts.get(fq)
        topc = eng.contracts.get(self.top_fq) if self.top_fq else None
        if topc is not None and fq in (topc.get("abstract_callees") or ()):
            # an overridable method seen from its base class: whatever the subclass computes, it is a function of the
            # receiver (and arguments).  The value is an opaque token: two calls give equal values iff equal tokens.
            key = (fq,) + tuple(eng.value_key(env[k]) for k in sorted(env))
            memo = self.ctx.__dict__.setdefault("abstract_memo", {})
            if key not in memo:
                memo[key] = mk_int(self.ctx.fresh("abs_" + fq.rsplit(".", 1)[-1]))
                self.ctx.tags.add("abstract method: %s is any function of its receiver (opaque value)" % fq.split("mingus.")[-1])
            return memo[key]
        if topc is not None and fq in (topc.get("inline_callees") or ()):
            return self.run_function(fref, env, line)
        if contract is not None and not contract.get("inline"):
            evs = (topc.get("callee_events") or {}) if topc is not None else {}
            if fq not in evs and not eng.callee_ready(fq):
                # the contract describes fields the call changes but does not say (havoc) that they change: it was written
                # to be PROVED, not to be assumed.  Executing the callee's real body in place is always sound.
                self.ctx.tags.add("callee executed in place (its contract is not written for call sites): %s" % fq.split("mingus.")[-1])
                return self.run_function(fref, env, line)
            return eng.apply_contract(self, fref, contract, env, line)
        if self.concrete or (contract is not None and contract.get("inline")) or fq in eng.inline or \
                fref.closure is not None and eng.contracts.get(fq) is None and eng.inline_closures:
            return self.run_function(fref, env, line)
        # a callee without a contract (e.g. a helper extracted by a refactoring): executing its real body in place is
        # always sound; only the nesting is limited, and the evidence lists what was inlined this way
        if getattr(self, "auto_depth", 0) < 3:
            self.auto_depth = getattr(self, "auto_depth", 0) + 1
            try:
                return self.run_function(fref, env, line)
            finally:
                self.auto_depth -= 1
        raise Unsupported("no contract for callee %s (line %s)" % (fq, line))

    def run_spec_function(self, fref, env):
        body = [b for b in fref.node.body
                if not (isinstance(b, ast.Expr) and isinstance(b.value, ast.Constant))]
        if len(body) != 1 or not isinstance(body[0], ast.Return):
            raise Unsupported("spec function %s must be a single return expression" % fref.fq)
        self.frames.append(Frame(fref, env, fref.module, spec=True))
        try:
            return self.eval(body[0].value)
        finally:
            self.frames.pop()

    def run_function(self, fref, env, line=None):
        self.depth += 1
        if self.depth > 60:
            raise Unsupported("call depth")
        self.ctx.inlined.add(fref.fq)
        self.frames.append(Frame(fref, env, fref.module, closure=fref.closure or []))
        try:
            if isinstance(fref.node, ast.Lambda):
                return self.eval(fref.node.body)
            try:
                self.exec_block(fref.node.body)
            except ReturnSig as r:
                return r.value
            return None
        finally:
            self.frames.pop()
            self.depth -= 1
