"""Value domain of the pyvc symbolic executor.

Concrete Python scalars (int, bool, float, str, None, tuple) are kept as they
are.  Everything else is one of the classes below.  Strings whose content is not
fully known are `SStr`: an SMT array Int->Int of code points, an offset and a
length, so that slices used for iteration are *views* (same array, other
offset) and `s + "#"` is a `Store`.  All of it stays quantifier free.
"""
import z3

INT = z3.IntSort()
REAL = z3.RealSort()
BOOL = z3.BoolSort()
ARR = z3.ArraySort(INT, INT)


class Unsupported(Exception):
    """Construct outside the supported subset: the obligation is UNDECIDED."""


class SInt(object):
    __slots__ = ("e",)

    def __init__(self, e):
        self.e = e

    def __repr__(self):
        return "SInt(%s)" % self.e


class SBool(object):
    __slots__ = ("e",)

    def __init__(self, e):
        self.e = e

    def __repr__(self):
        return "SBool(%s)" % self.e


class SReal(object):
    """Python float treated as a mathematical real (tagged float-as-real)."""
    __slots__ = ("e",)

    def __init__(self, e):
        self.e = e

    def __repr__(self):
        return "SReal(%s)" % self.e


class SStr(object):
    """String (or bytes) with symbolic content: chars are arr[off + i], 0 <= i < length."""
    __slots__ = ("length", "arr", "off", "opaque", "is_bytes", "maxlen")

    def __init__(self, length, arr, off=None, opaque=False, is_bytes=False, maxlen=None):
        self.maxlen = maxlen
        self.length = length if z3.is_expr(length) else z3.IntVal(length)
        self.arr = arr
        self.off = z3.IntVal(0) if off is None else (off if z3.is_expr(off) else z3.IntVal(off))
        self.opaque = opaque
        self.is_bytes = is_bytes

    def known_len(self):
        l = z3.simplify(self.length)
        if z3.is_int_value(l):
            return l.as_long()
        return None

    def max_len(self):
        """a concrete upper bound of the length if one is known, else None"""
        k = self.known_len()
        if k is not None:
            return k
        return self.maxlen

    def at(self, i):
        """code point at (already normalised, in-range) index i (z3 Int or int)."""
        idx = z3.simplify(self.off + i)
        return sel(self.arr, idx)

    def __repr__(self):
        return "SStr(len=%s)" % (z3.simplify(self.length),)


def sel(arr, idx):
    """select with ite push-down so that ghost counters see plain arrays."""
    return z3.Select(arr, idx)


_K0 = z3.K(INT, z3.IntVal(0))


def sstr_of(s, is_bytes=False):
    """Concrete str/bytes -> SStr."""
    arr = _K0
    if isinstance(s, (bytes, bytearray)):
        codes = list(s)
        is_bytes = True
    else:
        codes = [ord(c) for c in s]
    for i, c in enumerate(codes):
        arr = z3.Store(arr, i, c)
    return SStr(z3.IntVal(len(codes)), arr, z3.IntVal(0), is_bytes=is_bytes)


def char_sstr(code):
    """1-character string from a code point expression."""
    return SStr(z3.IntVal(1), z3.Store(_K0, 0, code), z3.IntVal(0))


class PList(object):
    """Python list of known length (items may be symbolic); mutable, has identity."""

    def __init__(self, items, origin=None):
        self.items = list(items)
        self.origin = origin  # e.g. 'module:mingus.core.notes.fifths' or 'param:x'

    def __repr__(self):
        return "PList(%r)" % (self.items,)


class SList(object):
    """List of symbolic length: elements are elem(arr[off+i]); kind names the element encoding."""

    def __init__(self, length, arr, kind, origin=None, aux=None):
        self.length = length
        self.arr = arr
        self.kind = kind  # 'int' | 'ref:<Class>' | 'str'
        self.origin = origin
        self.aux = aux

    def __repr__(self):
        return "SList(len=%s,%s)" % (self.length, self.kind)


class PDict(object):
    def __init__(self, d, origin=None):
        self.d = dict(d)
        self.origin = origin

    def __repr__(self):
        return "PDict(%r)" % (self.d,)


class PSet(object):
    def __init__(self, items, origin=None):
        self.items = list(items)
        self.origin = origin


class Obj(object):
    """Instance of a repository class: real class object + field map."""

    def __init__(self, cls, fields=None, origin=None):
        self.cls = cls
        self.fields = dict(fields or {})
        self.origin = origin

    def __repr__(self):
        return "Obj(%s,%r)" % (self.cls.__name__, self.fields)


class FuncRef(object):
    def __init__(self, module, qualname, node, closure=None, pyfunc=None):
        self.module = module
        self.qualname = qualname
        self.node = node
        self.closure = closure
        self.pyfunc = pyfunc

    @property
    def fq(self):
        return "%s.%s" % (self.module, self.qualname)

    def __repr__(self):
        return "FuncRef(%s)" % self.fq


class BoundMethod(object):
    def __init__(self, obj, func):
        self.obj = obj
        self.func = func


class NativeMethod(object):
    """Method of a native value (str/list/dict): modelled built-in."""

    def __init__(self, recv, name):
        self.recv = recv
        self.name = name


class ClassRef(object):
    def __init__(self, cls):
        self.cls = cls

    def __repr__(self):
        return "ClassRef(%s)" % self.cls.__name__


class ModuleRef(object):
    def __init__(self, mod):
        self.mod = mod


class Builtin(object):
    def __init__(self, name, py=None):
        self.name = name
        self.py = py

    def __repr__(self):
        return "Builtin(%s)" % self.name


class ExcValue(object):
    """An exception instance: class + opaque message."""

    def __init__(self, cls, args=()):
        self.cls = cls
        self.args = args


class RepList(object):
    """head + base * count + tail with a symbolic count >= 0: what `notes * octaves + [notes[0]]` builds
    (and its reversal)."""

    def __init__(self, base, count, tail, origin=None, head=()):
        self.head = list(head)
        self.base = list(base)
        self.count = count      # z3 Int
        self.tail = list(tail)
        self.origin = origin

    def __repr__(self):
        return "RepList(%r + %r * %s + %r)" % (self.head, self.base, self.count, self.tail)


class SIntSet(object):
    """an unknown collection of ints, used only through `x in s` (uninterpreted membership)"""

    def __init__(self, ident):
        self.ident = ident


class HexStr(object):
    """the text "%0<width>x" % value for a symbolic int value (only ever fed to a2b_hex)"""

    def __init__(self, value, width):
        self.value = value      # z3 Int
        self.width = width      # python int


class FileObj(object):
    """ghost file: bytes `data` (SStr, is_bytes) and a read position `pos` (z3 Int)"""

    def __init__(self, data, pos, origin=None):
        self.data = data
        self.pos = pos
        self.origin = origin


class SuperProxy(object):
    def __init__(self, obj, after):
        self.obj = obj
        self.after = after


class RangeVal(object):
    def __init__(self, lo, hi, step=1):
        self.lo, self.hi, self.step = lo, hi, step


# ---------------------------------------------------------------- arithmetic

def py_mod(a, b):
    """Python's % on ints (sign of the divisor), for z3 Int terms."""
    if z3.is_int_value(b):
        bv = b.as_long()
        if bv > 0:
            return a % b
        if bv < 0:
            return -((-a) % z3.IntVal(-bv))
    return z3.If(b > 0, a % b, -((-a) % (-b)))


def py_floordiv(a, b):
    """Python's // on ints (floor), for z3 Int terms."""
    if z3.is_int_value(b):
        bv = b.as_long()
        if bv > 0:
            return a / b  # SMT div with positive divisor is floor
        if bv < 0:
            return (-a) / z3.IntVal(-bv)
    return z3.If(b > 0, a / b, (-a) / (-b))


def is_sym(v):
    return isinstance(v, (SInt, SBool, SReal, SStr))


def simp(e):
    return z3.simplify(e)


def concrete_int(e):
    e = z3.simplify(e)
    if z3.is_int_value(e):
        return e.as_long()
    return None


def concrete_bool(e):
    e = z3.simplify(e)
    if z3.is_true(e):
        return True
    if z3.is_false(e):
        return False
    return None
