"""setup_cmd: checks the tool chain and the engine's own regression obligations (offline, seconds)."""
import sys
import time


def main():
    t0 = time.time()
    import z3
    print("z3", z3.get_version_string())
    import subprocess
    try:
        v = subprocess.run(["/usr/bin/cvc5", "--version"], capture_output=True, text=True).stdout.split("\n")[0]
        print(v)
    except Exception as e:
        print("cvc5 not runnable:", e)
    from pyvc.check import prove_lemmas
    ls = prove_lemmas(20000)
    bad = [l for l in ls if l["verdict"] != "proved"]
    print("ghost lemmas: %d proved, %d not" % (len(ls) - len(bad), len(bad)))
    if bad:
        print(bad)
        return 3
    from pyvc.engine import Engine
    eng = Engine()
    S = "pyvc.selftest_samples."
    eng.contracts.update({
        S + "count_ok": dict(params={"s": "str"}, requires="len(s) >= 1", returns="int",
                             ensures="result == cnt_sharp(s, 1, len(s))",
                             loops={1: dict(index="k", inv="n == cnt_sharp(s, 1, 1 + k)")}, file="selftest"),
        S + "count_bad": dict(params={"s": "str"}, requires="len(s) >= 1", returns="int",
                              ensures="result == cnt_sharp(s, 1, len(s))",
                              loops={1: dict(index="k", inv="n == cnt_sharp(s, 1, 1 + k)")}, file="selftest"),
        S + "mod_ok": dict(params={"a": "int"}, returns="int",
                           ensures="-12 < result and result <= 0 and (a - result) % 12 == 0", file="selftest"),
        S + "idx_bad": dict(params={"l": "int", "i": "int"}, requires="0 <= i and i <= 3", returns="str",
                            ensures="len(result) == 1", file="selftest"),
        S + "tail_ok": dict(params={"s": "str"}, requires="is_name(s)", returns="str",
                            ensures="net(result) == net(s) + 1 and is_name(result)", file="selftest"),
    })
    # a method that returns self (the caller must get the SAME object back, not a fresh one: a fresh one made the
    # assumed postcondition contradictory and everything after the call vacuously true)
    eng.classes["Cell"] = {"class": "pyvc.selftest_samples.Cell", "fields": {"v": "int"}}
    eng.contracts[S + "Cell.put"] = dict(params={"self": "Cell", "v": "int"}, returns="Cell",
                                         ensures=[("returns-self", "same_object(result, self)"), ("stored", "self.v == v")],
                                         modifies=["param:self"], havoc={"self.v": "=v"}, file="selftest")
    for nm in ("chain_ok", "chain_bad"):
        eng.contracts[S + nm] = dict(params={"c": "Cell"}, returns="int", ensures="result == 4",
                                     modifies=["param:c"], file="selftest")
    # appending a structured entry to a list of unknown length
    for nm in ("append_ok", "append_bad"):
        eng.contracts[S + nm] = dict(params={"log": "list[any]", "x": "int"}, returns="int",
                                     old={"old_len": "len(log)", "old_log": "log"},
                                     ensures=[("one-more", "result == old_len + 1 and len(log) == old_len + 1"),
                                              ("entry", "log[len(log) - 1][0] == x and log[len(log) - 1][1] == 1"),
                                              ("prefix", "list_prefix_same(log, old_log, old_len)")],
                                     modifies=["param:log"], file="selftest")
    # a mutable default argument is shared state: writing to it is outside an empty frame
    eng.contracts[S + "default_bad"] = dict(params={"x": "int"}, returns="int", ensures="result >= 1", modifies=[],
                                            file="selftest")
    # bytes never equal str (the engine once compared them by content)
    eng.contracts[S + "bytes_vs_str"] = dict(params={"b": "bytes"}, returns="bool", ensures="result == True",
                                             modifies=[], file="selftest")
    # rebinding a module variable: a write outside an empty frame, and its value at entry is not the import-time one
    eng.contracts[S + "global_bad"] = dict(params={"x": "int"}, returns="int", ensures="result == x", modifies=[],
                                           file="selftest")
    # a slice of a list of unknown length is a view of the same elements
    eng.contracts[S + "drop_last"] = dict(params={"log": "list[entry]"}, returns="int",
                                          ensures="result == (len(log) - 1 if len(log) > 0 else 0)", modifies=[], file="selftest")
    # a conjunction of simple comparisons is one condition (2 paths, not 3)
    eng.contracts[S + "both_tests"] = dict(params={"a": "int", "lo": "int", "hi": "int"}, returns="int",
                                           ensures="result == (1 if lo <= a and a <= hi else 0)", modifies=[], file="selftest")
    # str.strip family: a view whose cut-off parts lie in the character set
    eng.contracts[S + "strip_ok"] = dict(params={"s": "str"}, returns="bool", ensures="result == True", modifies=[], file="selftest")
    eng.contracts[S + "strip_bad"] = dict(params={"s": "str"}, requires="len(s) >= 1", returns="bool", ensures="result == True",
                                          modifies=[], file="selftest")
    # a list the receiver held before the call is not a new list, however it was emptied; round(x, n) is exact
    eng.classes["Shelf"] = {"class": "pyvc.selftest_samples.Shelf", "fields": {"items": "list[any]"}}
    for nm in ("Shelf.clear_new", "Shelf.clear_same"):
        eng.contracts[S + nm] = dict(params={"self": "Shelf"}, returns="None",
                                     ensures="len(self.items) == 0 and is_fresh(self.items)", modifies=["param:self"], file="selftest")
    eng.contracts[S + "near_ok"] = dict(params={"a": "real", "b": "real"}, returns="bool",
                                        ensures="(not (a == b)) or result == True", modifies=[], file="selftest")
    # a contract that says WHICH field may change is checked for leaving the others alone (callers assume exactly that)
    eng.classes["Pair"] = {"class": "pyvc.selftest_samples.Pair", "fields": {"v": "int", "w": "int"}}
    for nm in ("Pair.put_v", "Pair.put_v_and_more"):
        eng.contracts[S + nm] = dict(params={"self": "Pair", "v": "int"}, returns="None", ensures="self.v == v",
                                     modifies=["param:self"], havoc={"self.v": "=v"}, file="selftest")
    expect = {"Pair.put_v": True, "Pair.put_v_and_more": False, "Shelf.clear_new": True, "Shelf.clear_same": False, "near_ok": True, "strip_ok": True, "strip_bad": False, "global_bad": False, "drop_last": True, "both_tests": True, "bytes_vs_str": True, "default_bad": False, "chain_ok": True, "chain_bad": False, "append_ok": True, "append_bad": False, "count_ok": True, "count_bad": False, "mod_ok": True, "idx_bad": False, "tail_ok": True}
    rc = 0
    for name, want in sorted(expect.items()):
        r = eng.verify(S + name)
        allp = all(x["verdict"] == "proved" for x in r["results"]) and not r["undecided"] and r["results"]
        anyref = any(x["verdict"] == "refuted" for x in r["results"])
        ok = allp if want else anyref
        print("engine regression %-16s expected %-7s -> %s" % (name, "proved" if want else "refuted", "ok" if ok else "WRONG"))
        if not ok:
            rc = 3
    print("selftest done in %.1fs" % (time.time() - t0))
    return rc


if __name__ == "__main__":
    sys.exit(main())
