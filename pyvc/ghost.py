"""Ghost counting functions over string arrays and their instantiated axioms.

cnt_<kind>(arr, lo, hi) = number of positions p with lo <= p < hi whose code
point arr[p] is of <kind>.  The kinds used by the note-name vocabulary:

    sharp : arr[p] == ord('#')
    flat  : arr[p] == ord('b')
    other : neither of the two

The functions are uninterpreted for the solver; the generator instantiates the
defining equations and a fixed set of lemmas at the terms that occur.  Every
lemma schema below is itself discharged by induction in `pyvc.selftest`
(`lemma/<name>/base|step`), from the two defining equations only.

    def0   hi <= lo  ->  cnt(a,lo,hi) == 0
    def1   hi >  lo  ->  cnt(a,lo,hi) == cnt(a,lo,hi-1) + ind(a[hi-1])
    range  0 <= cnt(a,lo,hi) <= max(hi-lo,0)
    sum    sharp + flat + other == max(hi-lo,0)
    store  (n < lo or n >= hi) -> cnt(Store(a,n,c),lo,hi) == cnt(a,lo,hi)
    point  lo <= j < hi and ind(a[j]) == 1 -> cnt(a,lo,hi) >= 1
    mono   h1 <= h2 -> cnt(a,lo,h1) <= cnt(a,lo,h2)
    split  lo <= m <= hi -> cnt(a,lo,hi) == cnt(a,lo,m) + cnt(a,m,hi)   (on request)
    const  cnt(K(c),lo,hi) == max(hi-lo,0) * ind(c)
"""
import z3
from .values import INT, ARR, BOOL

SHARP, FLAT = 35, 98

KINDS = ("sharp", "flat", "other")
FUN = {k: z3.Function("cnt_" + k, ARR, INT, INT, INT) for k in KINDS}


def ind(kind, x):
    if kind == "sharp":
        return z3.If(x == SHARP, 1, 0)
    if kind == "flat":
        return z3.If(x == FLAT, 1, 0)
    return z3.If(z3.And(x != SHARP, x != FLAT), 1, 0)


def zmax0(e):
    return z3.If(e > 0, e, z3.IntVal(0))


POW2 = z3.Function("is_pow2", INT, BOOL)


class Registry(object):
    """Per-path registry of ghost terms; produces the axiom instances."""

    MAXDEPTH = 3

    def __init__(self):
        self.terms = {}      # key -> (arr, lo, hi, depth)
        self.selects = {}    # key -> (arr, idx)
        self.order = []
        self.pow2_terms = {}  # id -> (term, depth)

    def pow2(self, t, depth=0):
        """ghost predicate: t is one of 1, 2, 4, 8, ...; defining equation instantiated at the terms that occur:
        pow2(t) <=> t == 1 or (t >= 2 and t mod 2 == 0 and pow2(t div 2))"""
        t = z3.simplify(t)
        k = t.get_id()
        if k not in self.pow2_terms or self.pow2_terms[k][1] > depth:
            self.pow2_terms[k] = (t, depth)
        return POW2(t)

    def pow2_axioms(self):
        out = []
        done = set()
        while True:
            todo = [(k, v) for k, v in self.pow2_terms.items() if k not in done]
            if not todo:
                break
            for k, (t, depth) in todo:
                done.add(k)
                if depth < 3:
                    half = z3.simplify(t / 2)
                    self.pow2(half, depth + 1)
                    out.append(POW2(t) == z3.Or(t == 1, z3.And(t >= 2, t % 2 == 0, POW2(half))))
                else:
                    out.append(z3.Implies(POW2(t), t >= 1))
        return out

    def _key(self, arr, lo, hi):
        return (arr.get_id(), z3.simplify(lo).get_id(), z3.simplify(hi).get_id())

    def cnt(self, kind, arr, lo, hi, depth=0):
        lo = z3.simplify(lo) if z3.is_expr(lo) else z3.IntVal(lo)
        hi = z3.simplify(hi) if z3.is_expr(hi) else z3.IntVal(hi)
        # push ite on arrays down
        if z3.is_app(arr) and arr.decl().kind() == z3.Z3_OP_ITE:
            c, a1, a2 = arr.children()
            return z3.If(c, self.cnt(kind, a1, lo, hi, depth), self.cnt(kind, a2, lo, hi, depth))
        k = self._key(arr, lo, hi)
        if k not in self.terms:
            self.terms[k] = (arr, lo, hi, depth)
            self.order.append(k)
        elif self.terms[k][3] > depth:
            self.terms[k] = (arr, lo, hi, depth)
        return FUN[kind](arr, lo, hi)

    def note_select(self, arr, idx):
        idx = z3.simplify(idx)
        k = (arr.get_id(), idx.get_id())
        if k not in self.selects:
            self.selects[k] = (arr, idx)

    def axioms(self):
        out = self.pow2_axioms()
        done = set()
        i = 0
        # the list grows while we iterate (children of unfold/store)
        while i < len(self.order):
            k = self.order[i]
            i += 1
            if k in done:
                continue
            done.add(k)
            arr, lo, hi, depth = self.terms[k]
            width = zmax0(hi - lo)
            tot = None
            for kind in KINDS:
                t = FUN[kind](arr, lo, hi)
                out.append(z3.And(t >= 0, t <= width))
                tot = t if tot is None else tot + t
                out.append(z3.Implies(hi <= lo, t == 0))
            out.append(tot == width)
            # constant arrays
            if z3.is_app(arr) and arr.decl().kind() == z3.Z3_OP_CONST_ARRAY:
                c = arr.children()[0]
                for kind in KINDS:
                    out.append(FUN[kind](arr, lo, hi) == width * ind(kind, c))
                continue
            if depth < self.MAXDEPTH:
                # def1 (unfold at the top end)
                kh = z3.simplify(hi - 1)
                for kind in KINDS:
                    sub = self.cnt(kind, arr, lo, kh, depth + 1)
                    out.append(z3.Implies(hi > lo,
                                          FUN[kind](arr, lo, hi) == sub + ind(kind, z3.Select(arr, kh))))
                # store lemma
                if z3.is_app(arr) and arr.decl().kind() == z3.Z3_OP_STORE:
                    a0, n, c = arr.children()
                    for kind in KINDS:
                        sub = self.cnt(kind, a0, lo, hi, depth + 1)
                        out.append(z3.Implies(z3.Or(n < lo, n >= hi),
                                              FUN[kind](arr, lo, hi) == sub))
        # pointwise and monotonicity lemmas between registered terms
        byarr = {}
        for k in self.order:
            arr, lo, hi, depth = self.terms[k]
            byarr.setdefault((arr.get_id(), lo.get_id()), []).append((arr, lo, hi))
        for (aid, lid), lst in byarr.items():
            if len(lst) > 1 and len(lst) <= 6:
                for x in range(len(lst)):
                    for y in range(len(lst)):
                        if x != y:
                            a, lo, h1 = lst[x]
                            _, _, h2 = lst[y]
                            for kind in KINDS:
                                out.append(z3.Implies(h1 <= h2, FUN[kind](a, lo, h1) <= FUN[kind](a, lo, h2)))
        sels = list(self.selects.values())
        for k in self.order:
            arr, lo, hi, depth = self.terms[k]
            if depth > 1:
                continue
            for (sarr, idx) in sels:
                if sarr.get_id() == arr.get_id():
                    for kind in KINDS:
                        out.append(z3.Implies(z3.And(lo <= idx, idx < hi, ind(kind, z3.Select(arr, idx)) == 1),
                                              FUN[kind](arr, lo, hi) >= 1))
        return out


# ------------------------------------------------------- lemma proofs (selftest)

def lemma_obligations():
    """Induction proofs of the lemma schemas from def0/def1 only.

    Returns a list of (name, hypotheses, goal).  Induction is on hi; the step
    assumes the statement at hi-1 (for the same a, lo and auxiliary values).
    """
    a = z3.Const("a", ARR)
    lo, hi, n, c, j, m = z3.Ints("lo hi n c j m")
    obs = []

    def defs(arr, l, h):
        r = []
        for kind in KINDS:
            f = FUN[kind]
            r.append(z3.Implies(h <= l, f(arr, l, h) == 0))
            r.append(z3.Implies(h > l, f(arr, l, h) == f(arr, l, h - 1) + ind(kind, z3.Select(arr, h - 1))))
        return r

    for kind in KINDS:
        f = FUN[kind]
        # range
        P = lambda h: z3.And(f(a, lo, h) >= 0, f(a, lo, h) <= zmax0(h - lo))
        obs.append(("range/%s/base" % kind, defs(a, lo, hi) + [hi <= lo], P(hi)))
        obs.append(("range/%s/step" % kind, defs(a, lo, hi) + [hi > lo, P(hi - 1)], P(hi)))
        # store
        S = z3.Store(a, n, c)
        Q = lambda h: f(S, lo, h) == f(a, lo, h)
        obs.append(("store/%s/base" % kind, defs(a, lo, hi) + defs(S, lo, hi) + [hi <= lo], Q(hi)))
        obs.append(("store-hi/%s/step" % kind,
                    defs(a, lo, hi) + defs(S, lo, hi) + [hi > lo, n >= hi, Q(hi - 1)], Q(hi)))
        obs.append(("store-lo/%s/step" % kind,
                    defs(a, lo, hi) + defs(S, lo, hi) + [hi > lo, n < lo, Q(hi - 1)], Q(hi)))
        # mono (induction on h2 from h1)
        h1 = z3.Int("h1")
        M = lambda h: f(a, lo, h1) <= f(a, lo, h)
        obs.append(("mono/%s/base" % kind, [hi == h1], M(hi)))
        obs.append(("mono/%s/step" % kind, defs(a, lo, hi) + [hi > h1, M(hi - 1), hi > lo], M(hi)))
        obs.append(("mono/%s/step-empty" % kind, defs(a, lo, hi) + defs(a, lo, h1) + [hi > h1, hi <= lo], M(hi)))
        # point (induction on hi from j+1)
        Pt = lambda h: f(a, lo, h) >= 1
        obs.append(("point/%s/base" % kind,
                    defs(a, lo, hi) + [lo <= j, hi == j + 1, ind(kind, z3.Select(a, j)) == 1,
                                       f(a, lo, hi - 1) >= 0], Pt(hi)))
        obs.append(("point/%s/step" % kind, defs(a, lo, hi) + [lo <= j, hi > j + 1, Pt(hi - 1)], Pt(hi)))
        # const
        K = z3.K(INT, c)
        C = lambda h: f(K, lo, h) == zmax0(h - lo) * ind(kind, c)
        obs.append(("const/%s/base" % kind, defs(K, lo, hi) + [hi <= lo], C(hi)))
        obs.append(("const/%s/step" % kind, defs(K, lo, hi) + [hi > lo, C(hi - 1)], C(hi)))
    # sum
    tot = lambda h: FUN["sharp"](a, lo, h) + FUN["flat"](a, lo, h) + FUN["other"](a, lo, h) == zmax0(h - lo)
    obs.append(("sum/base", defs(a, lo, hi) + [hi <= lo], tot(hi)))
    obs.append(("sum/step", defs(a, lo, hi) + [hi > lo, tot(hi - 1)], tot(hi)))
    return obs
