"""Tiny functions with right and deliberately WRONG bodies: the engine must prove the former and refute the latter."""


def count_ok(s):
    n = 0
    for ch in s[1:]:
        if ch == "#":
            n += 1
    return n


def count_bad(s):
    n = 0
    for ch in s[1:]:
        if ch == "#":
            n += 1
        elif ch == "x":
            n += 1
    return n


def mod_ok(a):
    return a % -12


def idx_bad(l, i):
    return ["a", "b", "c"][i]


def tail_ok(s):
    if s[-1] != "b":
        return s + "#"
    return s[:-1]
