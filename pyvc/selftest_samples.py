"""Tiny functions with right and deliberately WRONG bodies: the engine must prove the former and refute the latter."""


def count_ok(s):
    n = 0
    for ch in s[1:]:
        if ch == "#":
            n += 1
    return n


def count_bad(s):
    n = 0
    for ch in s[1:]:
        if ch == "#":
            n += 1
        elif ch == "x":
            n += 1
    return n


def mod_ok(a):
    return a % -12


def idx_bad(l, i):
    return ["a", "b", "c"][i]


def tail_ok(s):
    if s[-1] != "b":
        return s + "#"
    return s[:-1]


class Cell(object):
    def __init__(self):
        self.v = 0

    def put(self, v):
        self.v = v
        return self


class Pair(object):
    def __init__(self):
        self.v = 0
        self.w = 0

    def put_v(self, v):
        self.v = v

    def put_v_and_more(self, v):
        self.v = v
        self.w = 0


def chain_ok(c):
    c.put(3)
    return c.v + 1


def chain_bad(c):
    c.put(3)
    return c.v + 2


def append_ok(log, x):
    log.append([x, 1])
    return len(log)


def append_bad(log, x):
    log.append([x, 1])
    log.append([x, 2])
    return len(log) - 1


def default_bad(x, seen=[]):
    seen.insert(0, x)
    return len(seen)


def bytes_vs_str(b):
    return b != ""


_last = None


def global_bad(x):
    global _last
    if _last is None:
        _last = x
    return _last


def drop_last(log):
    log2 = log[:-1]
    return len(log2)


def both_tests(a, lo, hi):
    return 1 if lo <= a and a <= hi else 0


def strip_ok(s):
    t = s.rstrip("#b")
    return len(t) <= len(s) and (len(t) == 0 or t[-1] not in "#b")


def strip_bad(s):
    t = s.strip("#b")
    return t == s[:1]


class Shelf(object):
    def __init__(self):
        self.items = []

    def clear_new(self):
        self.items = []

    def clear_same(self):
        del self.items[:]


def near_ok(a, b):
    return round(a, 2) == round(b, 2)
