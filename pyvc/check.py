"""./check <property> [--tier quick|thorough] : decide one property on /repo's current tree.

exit 0  every obligation discharged, every bounded stand-in passed (known findings printed)
exit 1  VIOLATION property=<id> replay=<path>   (refuted obligation or failing bounded case)
exit 0  also when something was left UNDECIDED (solver unknown / unsupported construct / stale loop annotation) while
        every bounded stand-in held: UNDECIDED and NOT-PROVED lines are printed, the evidence counts the items as
        undischarged; VERIF_STRICT=1 makes that outcome exit 2
exit 3  checker error (vacuity, crash, inconsistency)
"""
import argparse
import hashlib
import json
import multiprocessing
import os
import subprocess
import sys
import tempfile
import time
import traceback

VERIF = os.path.dirname(os.path.dirname(os.path.abspath(__file__)))
REPO = os.environ.get("VERIF_REPO", "/repo")
PY_REAL = os.environ.get("VERIF_PYTHON", "/venv/bin/python")
sys.dont_write_bytecode = True

_ENGINE = None


def _engine(timeout_ms):
    global _ENGINE
    if _ENGINE is None:
        from pyvc.engine import Engine
        _ENGINE = Engine(timeout_ms=timeout_ms)
    _ENGINE.timeout_ms = timeout_ms
    _ENGINE.second_opinion = timeout_ms >= 60000      # thorough tier
    return _ENGINE


def _task(t):
    kind, fq, split, timeout_ms = t
    try:
        eng = _engine(timeout_ms)
        if kind == "verify":
            return ("verify", fq, split, eng.verify(fq, split))
        if kind == "lemmas":
            return ("lemmas", None, None, prove_lemmas(timeout_ms))
        if kind == "split":
            return ("split", fq, None, split_complete(eng, fq))
    except Exception:
        return ("error", fq, split, traceback.format_exc())


def prove_lemmas(timeout_ms):
    import z3
    from pyvc import ghost
    out = []
    for name, hyps, goal in ghost.lemma_obligations():
        s = z3.Solver()
        s.set("timeout", timeout_ms)
        for h in hyps:
            s.add(h)
        s.add(z3.Not(goal))
        t0 = time.time()
        r = s.check()
        out.append({"label": "lemma/" + name, "kind": "lemma",
                    "verdict": "proved" if r == z3.unsat else ("refuted" if r == z3.sat else "unknown"),
                    "backend": "z3", "ms": round((time.time() - t0) * 1000, 1)})
    return out


try:
    with open(os.path.join(VERIF, "contracts", "task_costs.json")) as _f:
        TASK_COSTS = json.load(_f)
except Exception:  # noqa
    TASK_COSTS = {}


def split_complete(eng, fq):
    """requires => (case_1 or ... or case_n) for a contract with a finite split."""
    import z3
    from pyvc.symexec import Ctx, Exec
    c = eng.contracts[fq]
    fref = eng.funcref_by_name(fq)
    ctx = Ctx(eng, [])
    ex = Exec(eng, ctx)
    env = eng.make_params(ex, fref, c)
    for nm, pre in eng.norm_named(c.get("requires"), "pre"):
        ctx.assume(ex.spec_bool(pre, env))
    cases = []
    for sp in c["split"]:
        if isinstance(sp, dict):
            parts = []
            for k, v in (sp.get("bind") or {}).items():
                parts.append(ex.spec_bool("%s == %r" % (k, v), env))
            if sp.get("assume"):
                parts.append(ex.spec_bool(sp["assume"], env))
            cases.append(z3.And(parts) if parts else z3.BoolVal(True))
        else:
            cases.append(ex.spec_bool(sp, env))
    from pyvc.symexec import VC
    vc = VC("split", "split-complete", list(ctx.pc), z3.Or(cases), None)
    r = eng.discharge(vc, ctx.axioms(), ctx)
    r.update({"label": "split-complete", "kind": "split", "line": None, "note": "", "path": ""})
    return r


# ----------------------------------------------------------------------------

def run_real(args, timeout=3600):
    env = dict(os.environ)
    env["PYTHONPATH"] = VERIF + os.pathsep + REPO
    env["MINGUS_VERIF"] = "1"
    env["PYTHONDONTWRITEBYTECODE"] = "1"
    return subprocess.run([PY_REAL] + args, cwd=VERIF, env=env, capture_output=True, text=True, timeout=timeout)


def load_known():
    p = os.path.join(VERIF, "known_findings.json")
    if not os.path.exists(p):
        return {"findings": [], "fixed": []}
    with open(p) as f:
        return json.load(f)


def main(argv=None):
    ap = argparse.ArgumentParser()
    ap.add_argument("property")
    ap.add_argument("--tier", default=os.environ.get("VERIF_TIER", "quick"))
    ap.add_argument("--jobs", type=int, default=int(os.environ.get("VERIF_JOBS", "14")))
    ap.add_argument("--replay")
    ap.add_argument("--no-bounded", action="store_true")
    ap.add_argument("--only", action="append")
    a = ap.parse_args(argv)
    if a.tier not in ("quick", "thorough"):
        a.tier = "quick"
    seed = int(os.environ.get("VERIF_SEED", "0") or 0)
    if a.replay:
        r = run_real(["-m", "bounded.run", "replay", a.replay])
        sys.stdout.write(r.stdout)
        sys.stderr.write(r.stderr)
        return r.returncode
    t0 = time.time()
    pid = a.property
    timeout_ms = 20000 if a.tier == "quick" else 60000      # wall-clock per obligation; roomy so a busy machine does not flip verdicts
    try:
        return check_property(pid, a, seed, timeout_ms, t0)
    except SystemExit:
        raise
    except Exception:
        traceback.print_exc()
        print("CHECKER-ERROR property=%s (exit 3)" % pid)
        return 3


def check_property(pid, a, seed, timeout_ms, t0):
    sys.path.insert(0, VERIF)
    sys.path.insert(0, REPO)
    from pyvc.engine import Engine
    eng = Engine(timeout_ms=timeout_ms)
    roots = sorted(fq for fq, c in eng.contracts.items() if pid in (c.get("properties") or []))
    if a.only:
        roots = [r for r in roots if any(o in r for o in a.only)]
    propdef = property_meta(pid)
    errors = []
    done = {}
    pending = list(roots)
    scheduled = set()
    fun_results = {}
    lemma_results = []
    split_results = {}
    ctx = multiprocessing.get_context("fork")
    pool = ctx.Pool(max(1, a.jobs))
    try:
        first = True
        while pending:
            tasks = []
            for fq in pending:
                if fq in scheduled:
                    continue
                scheduled.add(fq)
                c = eng.contracts[fq]
                if c.get("inline") or c.get("assumed") or c.get("bounded_only") or c.get("trace"):
                    continue
                if c.get("split"):
                    for i in range(len(c["split"])):
                        tasks.append(("verify", fq, i, timeout_ms))
                    if not c.get("split_is_domain"):
                        tasks.append(("split", fq, None, timeout_ms))
                else:
                    tasks.append(("verify", fq, None, timeout_ms))
            if first:
                tasks.append(("lemmas", None, None, timeout_ms))
                first = False
            # longest first (costs measured on an earlier run, contracts/task_costs.json; unknown tasks go first)
            tasks.sort(key=lambda t: -TASK_COSTS.get("%s[%s]" % (t[1], t[2]), 1e9 if t[0] == "verify" else 0))
            pending = []
            for kind, fq, split, res in pool.imap_unordered(_task, tasks):
                if kind == "error":
                    errors.append("%s[%s]: %s" % (fq, split, res))
                elif kind == "lemmas":
                    lemma_results = res
                elif kind == "split":
                    split_results[fq] = res
                else:
                    fun_results.setdefault(fq, []).append(res)
                    if os.environ.get("VERIF_RECORD_COSTS") == "1":
                        TASK_COSTS["%s[%s]" % (fq, split)] = res.get("wall_s", 0)
                    for u in res["used_contracts"]:
                        if u not in scheduled and u in eng.contracts:
                            pending.append(u)
    finally:
        pool.close()
        pool.join()

    # ------------------------------------------------------------ bounded layer
    bounded = []
    driver = None
    if not a.no_bounded:
        fqs = [fq for fq in sorted(scheduled) if eng.contracts[fq].get("battery") and "#" not in fq]
        tmpd = tempfile.mkdtemp(prefix="verif-")
        try:
            procs = []
            chunks = [fqs[i::max(1, min(a.jobs, len(fqs)))] for i in range(max(1, min(a.jobs, len(fqs))))] if fqs else []
            env = dict(os.environ)
            env["PYTHONPATH"] = VERIF + os.pathsep + REPO
            env["PYTHONDONTWRITEBYTECODE"] = "1"
            env["MINGUS_VERIF"] = "1"
            undecided_fns = set(fq.split("#")[0] for fq, rs in fun_results.items() if any(r["undecided"] or any(x["verdict"] != "proved" for x in r["results"]) for r in rs))
            if undecided_fns:
                # a function the generator could not decide falls back on its run-time contract: deeper battery
                extra = [fq for fq in fqs if fq in undecided_fns]
                fqs2 = [fq for fq in fqs if fq not in undecided_fns]
                chunks = [fqs2[i::max(1, min(a.jobs, len(fqs2)))] for i in range(max(1, min(a.jobs, len(fqs2))))] if fqs2 else []
                for j, fq in enumerate(extra):
                    out = os.path.join(tmpd, "u%d.json" % j)
                    p = subprocess.Popen([PY_REAL, "-m", "bounded.run", "battery", out, "thorough", str(seed), fq],
                                         cwd=VERIF, env=env, stdout=subprocess.PIPE, stderr=subprocess.PIPE, text=True)
                    procs.append((p, out))
            for i, ch in enumerate(chunks):
                if not ch:
                    continue
                out = os.path.join(tmpd, "b%d.json" % i)
                p = subprocess.Popen([PY_REAL, "-m", "bounded.run", "battery", out, a.tier, str(seed)] + ch,
                                     cwd=VERIF, env=env, stdout=subprocess.PIPE, stderr=subprocess.PIPE, text=True)
                procs.append((p, out))
            dout = os.path.join(tmpd, "driver.json")
            dp = None
            if os.path.exists(os.path.join(VERIF, "bounded", "drivers", pid + ".py")):
                dp = subprocess.Popen([PY_REAL, "-m", "bounded.run", "driver", dout, a.tier, str(seed), pid],
                                      cwd=VERIF, env=env, stdout=subprocess.PIPE, stderr=subprocess.PIPE, text=True)
            for p, out in procs:
                so, se = p.communicate()
                if p.returncode != 0 or not os.path.exists(out):
                    errors.append("bounded battery process failed: %s" % se[-2000:])
                    continue
                with open(out) as f:
                    bounded.extend(json.load(f))
            if dp is not None:
                so, se = dp.communicate()
                if dp.returncode != 0 or not os.path.exists(dout):
                    errors.append("bounded driver process failed: %s" % se[-2000:])
                else:
                    with open(dout) as f:
                        driver = json.load(f)
        finally:
            import shutil
            shutil.rmtree(tmpd, ignore_errors=True)
    for b in bounded:
        if b.get("error"):
            errors.append("battery %s: %s" % (b["function"], b["error"][-1500:]))
    if driver and driver.get("error"):
        errors.append("driver %s: %s" % (pid, driver["error"][-3000:]))

    # ------------------------------------------------------------ collect
    known = load_known()
    kf = [k for k in known.get("findings", []) if k.get("property") == pid]
    all_vcs = []
    undecided = []
    funcs_ev = []
    vacuous = []
    trusted = set()
    inlined = set()
    for fq in sorted(fun_results):
        rs = fun_results[fq]
        n = d = 0
        ms = 0.0
        reach = 0
        for r in rs:
            for u in r["undecided"]:
                undecided.append("%s: %s" % (fq, u[1]))
            for x in r["results"]:
                x["function"] = fq
                x["split"] = r["split"]
                all_vcs.append(x)
                n += 1
                d += x["verdict"] == "proved"
                ms += x.get("ms", 0)
            reach += r["reachable_exits"]
            trusted |= set(r["tags"])
            inlined |= set(r["inlined"])
        if fq in split_results:
            x = split_results[fq]
            x["function"] = fq
            x["split"] = None
            all_vcs.append(x)
            n += 1
            d += x["verdict"] == "proved"
        if reach == 0 and not any(r["undecided"] for r in rs):
            vacuous.append(fq)
        funcs_ev.append({"function": fq, "source_sha1": rs[0]["source_sha1"], "obligations": n, "discharged": d,
                         "paths": sum(r["paths"] for r in rs), "reachable_exits": reach,
                         "solver_ms": round(ms, 1), "root": fq in roots,
                         "contract_file": eng.contracts[fq]["file"]})
    for x in lemma_results:
        x["function"] = "pyvc.ghost"
        x["split"] = None
        all_vcs.append(x)
    disagree = [x for x in all_vcs if x["verdict"] == "disagreement"]
    for x in disagree:
        errors.append("solver disagreement on %s :: %s (z3 unsat, cvc5 sat)" % (x["function"], x["label"]))
    cvc5_checked = sum(1 for x in all_vcs if x.get("cvc5") is not None)
    cvc5_agree = sum(1 for x in all_vcs if x.get("cvc5") == "unsat")
    refuted = [x for x in all_vcs if x["verdict"] == "refuted"]
    unknown = [x for x in all_vcs if x["verdict"] == "unknown"]
    proved = [x for x in all_vcs if x["verdict"] == "proved"]

    # ------------------------------------------------------------ violations
    violations = []
    unwitnessed = []
    os.makedirs(os.path.join(VERIF, "replays"), exist_ok=True)
    seen = set()
    for x in refuted:
        key = (x["function"], x["label"])
        if key in seen:
            continue
        seen.add(key)
        line = report_refuted(pid, x, bounded, eng)
        internal = x.get("kind") in ("inv-init", "inv-step", "decr", "call-pre", "side")
        if internal and line.endswith("no-failing-input-found"):
            # an obligation about the proof's own annotations (loop invariant, variant, callee precondition) failed
            # and neither the counter-model nor the battery yields a failing input of the real function: the proof no
            # longer goes through (e.g. the loop was rewritten), which is UNDECIDED, not a violation of the property
            unwitnessed.append("%s :: %s no longer discharged (counter-model does not reproduce on the real code; "
                               "see %s)" % (x["function"], x["label"], line.split("replay=")[1].split()[0]))
        else:
            violations.append(line)
    known_lines = []
    for b in bounded:
        seen_clause = set()
        for fl in b.get("failures", []):
            key = fl["failures"][0][0]
            if key in seen_clause:
                continue
            viol = report_bounded(pid, b["function"], fl, kf, known_lines)
            if viol:
                seen_clause.add(key)
                violations.append(viol)
    if driver:
        for fl in driver.get("failures", []):
            viol = report_driver(pid, fl, kf, known_lines)
            if viol:
                violations.append(viol)
        for kl in driver.get("known", []):
            known_lines.append(kl)
    # known findings: replay every witness on the real code; still failing -> KNOWN-FINDING line
    if kf and not a.no_bounded:
        fd, fpath = tempfile.mkstemp(suffix=".json")
        os.close(fd)
        try:
            r = run_real(["-m", "bounded.run", "findings", fpath, pid], timeout=600)
            if r.returncode != 0:
                errors.append("known-finding replay failed: %s" % r.stderr[-1500:])
            else:
                with open(fpath) as f:
                    for w in json.load(f):
                        if w["reproduces"]:
                            known_lines.append("%s %s: %s (witness observed: %s)" % (w.get("function"), w["id"],
                                                                                   w.get("what"), w["observed"]))
                        else:
                            print("NOTE: known finding %s no longer reproduces (observed %s)" % (w["id"], w["observed"]))
        finally:
            os.unlink(fpath)
    for line in sorted(set(known_lines)):
        print("KNOWN-FINDING: property=%s %s" % (pid, line))

    # ------------------------------------------------------------ evidence
    nobl = len(all_vcs)
    ndis = len(proved)
    wall = round(time.time() - t0, 2)
    bounded_ev = [{k: b.get(k) for k in ("function", "battery", "rule", "exhaustive_upto", "evaluations",
                                         "passed", "skipped", "n_failing", "distinct_observations", "sample",
                                         "wall_s")} for b in bounded]
    evals = sum(b.get("evaluations", 0) for b in bounded) + (driver or {}).get("evaluations", 0)
    distinct = sum(b.get("distinct_observations", 0) for b in bounded) + (driver or {}).get("distinct_nontrivial", 0)
    samples = []
    for x in proved[:3]:
        samples.append({"obligation": "%s :: %s" % (x["function"], x["label"]), "path": x.get("path"),
                        "verdict": x["verdict"], "backend": x.get("backend"), "ms": x.get("ms")})
    for b in bounded[:3]:
        if b.get("sample") is not None:
            samples.append({"bounded_case": b["function"], "args": b["sample"]})
    if driver:
        samples.extend(driver.get("samples", [])[:4])
    level = propdef.get("level", "proof")
    by_backend = {}
    for x in proved:
        by_backend[x.get("backend", "?")] = by_backend.get(x.get("backend", "?"), 0) + 1
    assumptions = [
        "python semantics: left-to-right evaluation, no concurrency, no monkey-patching, unbounded ints; "
        "module-level tables are read from the imported repository module, function bodies from its AST",
        "modelled built-ins used: " + ", ".join(sorted(t[8:] for t in trusted if t.startswith("builtin:"))),
        "ghost counting functions are uninterpreted; their lemma schemas are proved by induction in this run "
        "(lemma/* obligations) and instantiated at the terms that occur",
        "parameters of object type are assumed pairwise distinct objects unless the contract says otherwise",
    ]
    if any(t == "float-as-real" for t in trusted):
        assumptions.append("float-as-real: machine floats treated as mathematical reals in the obligations that touch them")
    for t in sorted(trusted):
        if t.startswith(("assumes:", "assumed contract", "event view:", "abstract method:", "ghost trace:", "module variable",
                         "quantified definition")):
            assumptions.append(t)
    assumptions.extend(propdef.get("assumptions", []))
    if driver:
        assumptions.extend(driver.get("assumptions", []))
    coverage = {
        # a function the engine could not decide counts as (at least) one undischarged obligation
        "obligations": nobl + len(undecided) + len(unwitnessed), "discharged": ndis,
        "checker_cmd": "./check %s --tier %s" % (pid, a.tier),
        "trusted_base": sorted(set(["z3 %s" % z3_version(), "cvc5 1.0.3 (fallback on z3 unknown)",
                                    "pyvc VC generator (this repository, /verif/pyvc)",
                                    "CPython import of module-level tables"] +
                                   [t for t in trusted if t.startswith("builtin:")])),
        "functions_under_contract": funcs_ev,
        "by_backend": by_backend,
        "second_opinion_cvc5": {"obligations_rechecked": cvc5_checked, "cvc5_unsat": cvc5_agree,
                                "cvc5_unknown_or_timeout": cvc5_checked - cvc5_agree - len(disagree),
                                "disagreements": len(disagree)},
        "solver_time_s": round(sum(x.get("ms", 0) for x in all_vcs) / 1000.0, 2),
        "slow_vcs": [{"function": x["function"], "label": x["label"], "ms": x["ms"]} for x in all_vcs
                     if x.get("ms", 0) > timeout_ms / 3.0],
        "inlined": sorted(inlined),
        "lemma_obligations": len(lemma_results),
        "undecided": undecided + unwitnessed +
                     ["%s :: %s (%s)" % (x["function"], x["label"], x.get("reason")) for x in unknown],
        "refuted": ["%s :: %s" % (x["function"], x["label"]) for x in refuted],
        "bounded": bounded_ev,
        "bounded_driver": {k: v for k, v in (driver or {}).items() if k not in ("failures", "samples")},
        "evaluations": max(evals, 0),
        "distinct_nontrivial": distinct,
        "rule": "bounded stand-ins: run-time contracts on the real functions over enumerated batteries "
                "(never counted in obligations/discharged); distinct = distinct observed results per function",
        "samples": samples,
        "exhaustive": False,
        "explanation": propdef.get("explanation", ""),
        "known_findings_reported": sorted(set(known_lines)),
    }
    ev = {"property_id": pid, "tier": a.tier, "seed": seed, "level": level, "coverage": coverage,
          "assumptions": assumptions, "wall_s": wall, "violations": len(violations)}
    evdir = os.environ.get("VERIF_EVIDENCE_DIR") or os.path.join(VERIF, "evidence")   # (override: dev runs on scratch trees)
    os.makedirs(evdir, exist_ok=True)
    with open(os.path.join(evdir, pid + ".json"), "w") as f:
        json.dump(ev, f, indent=1, sort_keys=True)

    if os.environ.get("VERIF_RECORD_COSTS") == "1":      # dev: remember task durations for the scheduling order
        with open(os.path.join(VERIF, "contracts", "task_costs.json"), "w") as f:
            json.dump(TASK_COSTS, f, indent=0, sort_keys=True)

    # ------------------------------------------------------------ verdict
    print("%s tier=%s: %d obligations, %d discharged, %d refuted, %d unknown; %d functions under contract; "
          "bounded evaluations %d; %.1fs" % (pid, a.tier, nobl, ndis, len(refuted), len(unknown), len(funcs_ev),
                                             evals, wall))
    if violations:
        for v in violations:
            print(v)
        return 1
    if errors:
        for e in errors:
            print("CHECKER-ERROR: " + e)
        return 3
    if vacuous:
        print("CHECKER-ERROR: no reachable exit (vacuous precondition?) in: %s" % ", ".join(vacuous))
        return 3
    if nobl == 0 and not (driver and driver.get("evaluations")):
        print("CHECKER-ERROR: zero obligations generated for %s" % pid)
        return 3
    if undecided or unknown or unwitnessed:
        for u in undecided + unwitnessed:
            print("UNDECIDED: " + u)
        for x in unknown:
            print("UNDECIDED: %s :: %s solver unknown (%s)" % (x["function"], x["label"], x.get("reason")))
        # Undecided is not a violation: nothing explored contradicts the property (the functions concerned ran
        # their thorough batteries and the driver passed), so the interface's answer is "held on everything
        # explored".  It is NOT a proof: the evidence of this run records the open obligations, and
        # VERIF_STRICT=1 turns this outcome into exit 2 for a maintainer who wants to be stopped by it.
        print("NOT-PROVED property=%s: %d item(s) left undecided by the deductive layer on this tree; their bounded "
              "stand-ins held; counted as undischarged in the evidence" % (pid, len(undecided) + len(unwitnessed) + len(unknown)))
        return 2 if os.environ.get("VERIF_STRICT") == "1" else 0
    return 0


def z3_version():
    import z3
    return z3.get_version_string()


def property_meta(pid):
    try:
        import importlib
        m = importlib.import_module("contracts.properties_meta")
        return m.META.get(pid, {})
    except ImportError:
        return {}


def replay_path(pid, fn, label, payload):
    h = hashlib.sha1(json.dumps(payload, sort_keys=True, default=str).encode()).hexdigest()[:8]
    safe = (fn.split("mingus.")[-1] + "-" + label).replace("/", "_").replace(":", "_").replace(" ", "_")
    return os.path.join(VERIF, "replays", "%s-%s-%s.json" % (pid, safe[:90], h))


def report_refuted(pid, x, bounded, eng):
    """Refuted obligation: replay the counter-model on the real code; fall back to the battery."""
    fn = x["function"]
    payload = {"property": pid, "function": fn, "obligation": x["label"], "path": x.get("path"),
               "line": x.get("line"), "note": x.get("note"), "inputs": x.get("model"),
               "solver": {"backend": x.get("backend"), "verdict": "sat (counter-model to the obligation)",
                          "ms": x.get("ms")},
               "reproduce": "cd /verif && ./check %s --replay <this file>" % pid}
    path = replay_path(pid, fn, x["label"], payload)
    reproduced = False
    detail = None
    if fn.startswith("mingus.") and "<locals>" not in fn and isinstance(x.get("model"), dict) \
            and "_decode_error" not in x["model"]:
        with open(path, "w") as f:
            json.dump(payload, f, indent=1, default=str)
        try:
            r = run_real(["-m", "bounded.run", "replay", path], timeout=120)
            try:
                detail = json.loads(r.stdout.strip().split("\n")[-1])
            except Exception:
                detail = {"stdout": r.stdout[-500:], "stderr": r.stderr[-500:]}
            reproduced = isinstance(detail, dict) and detail.get("status") == "fail"
        except subprocess.TimeoutExpired:
            detail = {"status": "timeout", "note": "the real function did not return within 120 s on this input"}
            reproduced = True
    payload["replay_on_real_code"] = detail
    if not reproduced:
        # search the battery results for a genuinely failing input of this function
        for b in bounded:
            if b.get("function") == fn and b.get("failures"):
                fl = b["failures"][0]
                payload["inputs_from_battery"] = fl
                payload["args"] = fl["args"]
                payload.pop("inputs", None)
                payload["counter_model_inputs_not_reproducing"] = x.get("model")
                reproduced = True
                break
    payload["reproduced_on_real_code"] = reproduced
    with open(path, "w") as f:
        json.dump(payload, f, indent=1, default=str)
    line = "VIOLATION property=%s replay=%s" % (pid, path)
    if not reproduced:
        line += " obligation=%s::%s no-failing-input-found" % (fn, x["label"])
    return line


def matches_known(kf, fn, fl):
    for k in kf:
        if k.get("function") != fn:
            continue
        region = k.get("region")
        if region is None:
            if k.get("args") == fl.get("args"):
                return k
            continue
        try:
            from contracts import specfuns
            ns = dict(vars(specfuns))
            ns["args"] = fl.get("args")
            ns["kwargs"] = fl.get("kwargs")
            ns["clauses"] = [c[0] for c in fl.get("failures", [])]
            if eval(region, {"__builtins__": __builtins__}, ns):
                return k
        except Exception:
            continue
    return None


def report_bounded(pid, fn, fl, kf, known_lines):
    k = matches_known(kf, fn, fl)
    if k is not None:
        known_lines.append("%s %s: %s" % (fn, k.get("id"), k.get("what")))
        return None
    payload = {"property": pid, "function": fn, "args": fl["args"], "kwargs": fl.get("kwargs"),
               "failed_clauses": fl["failures"], "observed": fl.get("observed"), "source": "bounded stand-in",
               "reproduce": "cd /verif && ./check %s --replay <this file>" % pid}
    path = replay_path(pid, fn, fl["failures"][0][0], payload)
    with open(path, "w") as f:
        json.dump(payload, f, indent=1, default=str)
    return "VIOLATION property=%s replay=%s" % (pid, path)


def report_driver(pid, fl, kf, known_lines):
    payload = dict(fl)
    payload["property"] = pid
    payload["source"] = "bounded driver"
    path = replay_path(pid, fl.get("function", "driver"), fl.get("clause", "case"), payload)
    with open(path, "w") as f:
        json.dump(payload, f, indent=1, default=str)
    return "VIOLATION property=%s replay=%s" % (pid, path)


if __name__ == "__main__":
    sys.exit(main())
