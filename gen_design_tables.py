#!/usr/bin/env python3
"""Dev helper: pastes the output of seed_table.py between the table markers of DESIGN.md §12.7 / §12.8."""
import os, re, subprocess
V = os.path.dirname(os.path.abspath(__file__))
out = subprocess.run(["python3", os.path.join(V, "seed_table.py")], capture_output=True, text=True).stdout
seed, _, refac = out.partition("\n\n")
p = os.path.join(V, "DESIGN.md")
s = open(p).read()
s = re.sub(r"<!-- SEED-TABLE-BEGIN -->.*?<!-- SEED-TABLE-END -->", lambda m: "<!-- SEED-TABLE-BEGIN -->\n" + seed.strip() + "\n<!-- SEED-TABLE-END -->", s, flags=re.S)
s = re.sub(r"<!-- REFAC-TABLE-BEGIN -->.*?<!-- REFAC-TABLE-END -->", lambda m: "<!-- REFAC-TABLE-BEGIN -->\n" + refac.strip() + "\n<!-- REFAC-TABLE-END -->", s, flags=re.S)
open(p, "w").write(s)
print("tables:", len(seed.split("\n")), len(refac.split("\n")))
