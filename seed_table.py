#!/usr/bin/env python3
"""Dev helper: prints the markdown tables of DESIGN §12.6 / §12.7 from seeded/*/meta.json and seeded/refactors/results.jsonl"""
import json, glob, os
V = os.path.dirname(os.path.abspath(__file__))
print("| change | file / what it needs to manifest | confirmed | check result | first failing obligation / clause |")
print("|---|---|---|---|---|")
for d in sorted(glob.glob(os.path.join(V, "seeded", "C*-*"))):
    m = json.load(open(os.path.join(d, "meta.json")))
    diff = open(os.path.join(d, "patch.diff")).read()
    files = sorted(set(l[6:] for l in diff.split("\n") if l.startswith("+++ b/")))
    fr = m.get("first_replay") or {}
    what = fr.get("obligation") or (fr.get("failed_clauses") or [[None]])[0][0] or fr.get("clause") or ""
    fn = (fr.get("function") or "").split("mingus.")[-1]
    src = "deductive" if fr.get("obligation") else ("battery" if fr.get("source") == "bounded stand-in" else "driver")
    print("| %s | %s | %s | %s | %s %s (%s) |" % (os.path.basename(d), ", ".join(f.replace("mingus/", "") for f in files),
          "yes" if m.get("confirmed") else "NO", (("caught, exit %d" % m["check"]["exit"]) if m.get("caught") else "missed, exit %d" % m["check"]["exit"]) +
          (" (first evaluation: missed; see below)" if any(not h.get("caught") for h in m.get("history", [])) and m.get("caught") else ""),
          fn, what, src))
print()
p = os.path.join(V, "seeded", "refactors", "results.jsonl")
if os.path.exists(p):
    print("| refactoring | files | exits of the checks run | VIOLATION lines |")
    print("|---|---|---|---|")
    seen = {}
    for l in open(p):
        r = json.loads(l)
        seen[(r["group"], r["n"])] = r
    for (g, n), r in sorted(seen.items()):
        print("| %s-%d | %s | %s | %d |" % (g, n, ", ".join(f.replace("mingus/", "") for f in r["files"]),
              ", ".join("%s:%d" % (p, c["exit"]) for p, c in sorted(r["checks"].items())),
              sum(len(c["violations"]) for c in r["checks"].values())))
