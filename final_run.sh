#!/bin/bash
# Dev helper: run every quick check on /repo itself (sequentially, machine otherwise idle), record task costs, validate the
# evidence files and the manifest.  Usage: ./final_run.sh [seed]
cd "$(dirname "$0")"
export VERIF_SEED=${1:-1}
rm -f contracts/task_costs.json
rc=0
for p in C01 C02 C03 C04 C05 C06 C07 C08 C09 C10 C11 C12 C13 C14 C15 C16 C17 C18 C19 C20; do
  s=$(date +%s)
  VERIF_RECORD_COSTS=1 ./check $p --tier quick > /tmp/final.$p.out 2>&1; e=$?
  echo "$p exit=$e $(( $(date +%s) - s ))s und=$(grep -c '^UNDECIDED' /tmp/final.$p.out) viol=$(grep -c '^VIOLATION' /tmp/final.$p.out) known=$(grep -c '^KNOWN-FINDING' /tmp/final.$p.out) | $(grep 'tier=' /tmp/final.$p.out | cut -c1-150)"
  [ $e -ne 0 ] && rc=1
done
python3-vt - <<'PY'
import json, jsonschema, glob
s = json.load(open('/root/.vp/EVIDENCE.schema.json'))
for f in sorted(glob.glob('/verif/evidence/C*.json')):
    d = json.load(open(f)); jsonschema.validate(d, s)
    c = d['coverage']
    assert c['obligations'] == c['discharged'] and not c['undecided'], f
jsonschema.validate(json.load(open('/verif/MANIFEST.json')), json.load(open('/root/.vp/MANIFEST.schema.json')))
print("evidence and manifest valid; obligations == discharged everywhere")
PY
exit $rc
