#!/usr/bin/env python3
"""Dev helper: re-run every known-finding witness; list those that no longer reproduce (to be moved to 'fixed' by hand)."""
import json, os, sys, inspect
VERIF = os.path.dirname(os.path.abspath(__file__))
sys.path.insert(0, VERIF); sys.path.insert(0, "/repo")
from contracts import specfuns
from bounded import rt
kf = json.load(open(os.path.join(VERIF, "known_findings.json")))
for k in kf["findings"]:
    try:
        if k.get("witness_code"):
            ns = dict(vars(specfuns)); exec(k["witness_code"], ns); holds = bool(ns.get("holds"))
        else:
            fn = rt.resolve(k["function"]); args = [rt.unjson(a) for a in k.get("args", [])]
            ba = inspect.signature(fn).bind(*args); ba.apply_defaults(); env = dict(ba.arguments)
            env["result"] = fn(*args); holds = bool(rt.ev(k["clause"], env))
    except Exception as e:
        holds = False
    print("%-5s %-50s %s" % (k["property"], k["id"], "NO LONGER REPRODUCES" if holds else "reproduces"))
